#![no_main]
//! C17: byte 0 selects one of the six wire decoders, the rest is the message; the oracle
//! (no panic; an accepted value is a fixed point of its decoder) is `vlight::c17::fuzz_entry`.
use libfuzzer_sys::fuzz_target;

fuzz_target!(|data: &[u8]| {
    vlight::c17::fuzz_entry(data);
});
