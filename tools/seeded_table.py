#!/usr/bin/env python3
"""Regenerates the seeded-change table in DESIGN.md (between the SEEDED_TABLE markers) from
seeded/<ID>/meta.json."""
import glob
import json
import os
import re

ROOT = os.path.dirname(os.path.dirname(os.path.abspath(__file__)))
BEGIN, END = "<!-- SEEDED_TABLE_BEGIN -->", "<!-- SEEDED_TABLE_END -->"

rows = ["| change | what it does | needs | caught by (quick tier) | not flagged by |", "|---|---|---|---|---|"]
for path in sorted(glob.glob(os.path.join(ROOT, "seeded", "*", "meta.json"))):
    meta = json.load(open(path))
    name = os.path.basename(os.path.dirname(path))
    caught, silent = [], []
    for check, how in meta.get("caught_by", {}).items():
        if "exit 0" in how or how.startswith("not ") or how.startswith("missed"):
            silent.append(f"{check} ({how})")
        else:
            caught.append(f"**{check}**: {how}")
    cell = lambda s: s.replace("|", "\\|").replace("\n", " ")
    rows.append("| `seeded/%s` | %s | %s | %s | %s |" % (
        name, cell(meta.get("change", "")), cell(meta.get("needs", "")),
        cell("; ".join(caught)) or "-", cell("; ".join(silent)) or "-"))
table = "\n".join(rows)

design = os.path.join(ROOT, "DESIGN.md")
text = open(design).read()
if "SEEDED_TABLE_PLACEHOLDER" in text:
    text = text.replace("SEEDED_TABLE_PLACEHOLDER", BEGIN + "\n" + END)
text = re.sub(re.escape(BEGIN) + r".*?" + re.escape(END), lambda _m: BEGIN + "\n" + table + "\n" + END, text, flags=re.S)
open(design, "w").write(text)
print(table)
