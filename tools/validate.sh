#!/usr/bin/env bash
# Validates MANIFEST.json and every evidence file against the schemas in /root/.vp.
ROOT="$(cd "$(dirname "${BASH_SOURCE[0]}")/.." && pwd)"
python3-vt - "$ROOT" <<'PY'
import json, sys, glob, os, jsonschema
root = sys.argv[1]
jsonschema.validate(json.load(open(f"{root}/MANIFEST.json")), json.load(open("/root/.vp/MANIFEST.schema.json")))
print("MANIFEST.json ok")
schema = json.load(open("/root/.vp/EVIDENCE.schema.json"))
bad = 0
for path in sorted(glob.glob(f"{root}/evidence/*.json")):
    ev = json.load(open(path))
    try:
        jsonschema.validate(ev, schema)
        c = ev["coverage"]
        note = ""
        if ev.get("violations"):
            note = "  <-- VIOLATIONS RECORDED"; bad += 1
        if c.get("distinct_nontrivial", 0) < 2:
            note += "  <-- distinct_nontrivial < 2"; bad += 1
        print(f"{os.path.basename(path)} ok tier={ev['tier']} seed={ev['seed']} evaluations={c.get('evaluations')} distinct_nontrivial={c.get('distinct_nontrivial')} samples={len(c.get('samples', []))}{note}")
    except jsonschema.ValidationError as e:
        bad += 1
        print(f"{os.path.basename(path)} INVALID: {e.message[:200]}")
sys.exit(1 if bad else 0)
PY
