#!/usr/bin/env bash
# Runs the quick tier of the given checks (default: all) with several seeds; any non-zero exit on the
# unchanged tree is a false alarm or a finding to look at. Output: out/seeds.log
ROOT="$(cd "$(dirname "${BASH_SOURCE[0]}")/.." && pwd)"
cd "$ROOT" || exit 2
SEEDS="${SEEDS:-1 2 3}"
CHECKS="${*:-C01 C02 C03 C04 C05 C06 C07 C08 C09 C10 C11 C12 C13 C14 C15 C16 C17 C18}"
for seed in $SEEDS; do
  for c in $CHECKS; do
    s=$(date +%s)
    out="$(VERIF_SEED=$seed ./check "$c" quick 2>&1)"; rc=$?
    echo "seed=$seed $c exit=$rc $(( $(date +%s) - s ))s" >> out/seeds.log
    if [ $rc -ne 0 ]; then
      echo "$out" | grep -E "violation signature|INCONCLUSIVE|BUILD FAILED" | cut -c1-600 | head -3 >> out/seeds.log
    fi
  done
done
echo SEEDS-DONE >> out/seeds.log
