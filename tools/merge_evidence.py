#!/usr/bin/env python3
"""Merges the per-binary evidence parts of one property into evidence/<ID>.json."""
import glob
import json
import os
import sys

pid, root = sys.argv[1], sys.argv[2]
parts = sorted(glob.glob(os.path.join(root, "out", "parts", f"{pid}.*.json")))
if not parts:
    print(f"no evidence parts for {pid}", file=sys.stderr)
    sys.exit(1)
merged = None
for path in parts:
    with open(path) as fh:
        ev = json.load(fh)
    part = os.path.basename(path).split(".")[1]
    cov = ev["coverage"]
    for sub in cov.get("subchecks", []):
        sub["binary"] = part
    if merged is None:
        merged = ev
        merged["coverage"]["parts"] = [part]
        continue
    mc = merged["coverage"]
    mc["parts"].append(part)
    mc["evaluations"] += cov["evaluations"]
    mc["distinct_nontrivial"] += cov["distinct_nontrivial"]
    mc["rule"] = mc["rule"] + " || " + cov["rule"]
    mc["samples"] += cov["samples"]
    mc["exhaustive"] = bool(mc.get("exhaustive")) and bool(cov.get("exhaustive"))
    mc.setdefault("classes", {}).update(cov.get("classes", {}))
    mc.setdefault("subchecks", []).extend(cov.get("subchecks", []))
    for k, v in cov.get("known_findings_excluded", {}).items():
        kfe = mc.setdefault("known_findings_excluded", {})
        kfe[k] = kfe.get(k, 0) + v
    for k, v in cov.items():
        # engine-specific extras (e.g. libFuzzer campaign statistics)
        if k not in mc and k != "inconclusive":
            mc[k] = v
    if "inconclusive" in cov:
        mc.setdefault("inconclusive", []).extend(cov["inconclusive"])
    merged["assumptions"] = merged.get("assumptions", []) + [
        a for a in ev.get("assumptions", []) if a not in merged.get("assumptions", [])
    ]
    merged["wall_s"] += ev["wall_s"]
    merged["violations"] = merged.get("violations", 0) + ev.get("violations", 0)
os.makedirs(os.path.join(root, "evidence"), exist_ok=True)
with open(os.path.join(root, "evidence", f"{pid}.json"), "w") as fh:
    json.dump(merged, fh, indent=2)
