#!/usr/bin/env python3
"""Prints the instructions handed to an independent sub-agent that is asked for a breaking change
(section 9 of DESIGN.md): the property text from properties.jsonl, a scratch worktree, nothing
from /verif. Usage: tools/seed_prompt.py <ID> [<worktree> [<what earlier reviewers already proposed>]]"""
import json
import os
import sys

ROOT = os.path.dirname(os.path.dirname(os.path.abspath(__file__)))
HINTS = {
    "C02": ("astria-sequencer", "a particular signer / role combination (the withdrawer versus the sudo of a bridge, a signer that held the privilege earlier, the IBC sudo versus the sudo, a bridge account signing for itself), a privileged action placed after another action of the same transaction, a particular chain state reached by earlier transactions"),
    "C04": ("astria-sequencer", "a particular multi-step history (the same withdrawal event id carried by two different action types, an event id reused after bridge administration, a deposit made by a transaction that later fails, an IBC receive into a bridge account followed by a refund), a particular asset / bridge combination"),
    "C06": ("astria-sequencer", "a particular mempool content (sizes just around the byte limits, a particular mix of action groups, dependent nonces, a transaction that fails in a particular way), a particular max_tx_bytes value, a particular single-field mutation of an honest proposal that is no longer rejected"),
    "C07": ("astria-sequencer, astria-core or astria-sequencer-relayer", "a particular block shape (several rollups of which one has only deposits, empty or duplicate payloads, a particular number of rollups such as a power of two plus one), a particular subset of rollup ids in a filtered request, a particular tampering that is no longer detected"),
    "C11": ("astria-sequencer-relayer", "a crash at a particular instant (between two state-file writes, while a BlobTx is in flight with a particular outcome: lost, pending, confirmed, timed out), a particular sequence of restarts, a particular block arrival pattern"),
    "C14": ("astria-sequencer", "a particular sequence of validator updates (several in one block, remove-then-add or update-then-remove of the same key within a block, a repeated key, a particular power), or a block right at or across the upgrade that changed validator storage"),
    "C15": ("astria-sequencer", "a particular voting-power distribution (a total of a particular residue mod 3, very large powers), a particular subset / duplication / forgery of vote extensions, a particular price vector (extreme or negative-looking values, an even number of reports, many pairs)"),
    "C01": ("astria-sequencer", "a particular multi-step sequence (a fee change followed by its use, a self-transfer, a bridge transfer between two bridges), an unusual input (a boundary amount, a particular asset / fee-asset combination, a particular action mix in one transaction)"),
    "C03": ("astria-sequencer", "a particular transaction shape (a multi-action bundle failing at a late action after earlier actions wrote state, fees, deposits or events), a particular nonce situation (replay of an included transaction, a gap, two transactions of one signer in a block)"),
    "C13": ("astria-sequencer", "a particular interleaving of insertions / removals / maintenance (a promotion right after a demotion, a removal of a parked transaction while a lower nonce is pending, re-costing when balances of two assets matter, an expiry racing a promotion), particular limits"),
    "C18": ("astria-sequencer", "a particular multi-step sequence (withdraw over one channel and return over another, a refund after a partial return, a second channel, a timeout of a bridge withdrawal), an unusual input (a denom with several trace segments, an ibc/ prefixed denom, a compat-prefixed address, a particular memo)"),
    "C09": ("astria-conductor", "a particular voting-power distribution, a particular mix of vote kinds in the commit, a particular sequence of Celestia heights (the verifier caches results), a particular combination of blobs"),
    "C10": ("astria-conductor", "a particular delivery schedule of soft and firm blocks (gaps, duplicates, firm overtaking soft, restarts of the execution session), a particular commitment state reported by the rollup"),
    "C12": ("astria-sequencer-relayer", "a particular sequence of block sizes around the blob size limits, a particular rollup filter, empty blocks between full ones"),
    "C16": ("astria-composer", "a particular sequence of transaction sizes around the bundle limit, a particular interleaving of pushes, pops and flushes, a full finished queue"),
    "C08": ("astria-merkle", "a particular tree shape (a size that is a power of two plus one, a single leaf, the last leaf of an unbalanced tree), a particular leaf content (the size of a node hash, two concatenated hashes), a proof with a boundary index or size"),
    "C17": ("astria-core, astria-merkle, astria-conductor or astria-sequencer", "a particular malformed input (a missing optional field, a length or index at a boundary, a particular field combination, a value such as 0 or 2^63 in a size or index field) that now panics or is accepted although the re-encoded value no longer passes the type's own checks"),
}


def main():
    pid = sys.argv[1].upper()
    wt = sys.argv[2] if len(sys.argv) > 2 else f"/tmp/wt-{pid.lower()}"
    prop = next(json.loads(l) for l in open(os.path.join(ROOT, "properties.jsonl")) if json.loads(l)["id"] == pid)
    crate, hint = HINTS.get(pid, ("the affected crate", "a particular multi-step sequence, an unusual input, or two cooperating sites"))
    avoid = sys.argv[3] if len(sys.argv) > 3 else ""
    if avoid:
        avoid = f" Earlier reviewers already proposed the following; pick a different part of the code and a different mechanism: {avoid}"
    print(f"""You are a careful adversarial reviewer of the astria monorepo (Rust). You have your own scratch git worktree of the repository at {wt} (work ONLY there; never touch /repo, never read or touch /verif). The sandbox is offline: use `cargo ... --offline`; nothing can be downloaded. Use your own build directory and limit parallelism because other people share this machine: `export CARGO_TARGET_DIR={wt}/target CARGO_BUILD_JOBS=6` (a cold build of a service crate's tests takes 10+ minutes; build only what you need, e.g. `cargo test -p <crate> --offline --lib <filter>`; `cargo nextest run -p <crate> --offline` is what the project's baseline uses). Ignore everything behind the cargo feature `verif` (files named verif.rs / verif_hooks.rs): it is off by default, do not modify it and do not rely on it.

Here is a semantic property the code base is supposed to satisfy:

---
{pid} - {prop['title']}

Statement: {prop['statement']}

Quantifier: {prop['quantifier']['text'] if isinstance(prop['quantifier'], dict) else prop['quantifier']}

Anchored in: {', '.join(prop['anchors']['files'] if isinstance(prop['anchors'], dict) else prop['anchors'])}
---

Your task: produce ONE realistic change to the production code (likely in {crate}; a plausible refactoring slip, optimisation, or "simplification" a developer could make; a few lines, not test code) that BREAKS this property while (a) the workspace still compiles and (b) the existing test suite of the affected crate still passes unchanged (run it and show the summary line; a few timing-dependent blackbox tests are flaky under load, they do not matter). The breakage must need something specific to manifest - {hint}, or two cooperating sites that each look fine alone - NOT something that ordinary use or the existing tests would expose at once. Prefer a semantic effect over a crash unless the property is about crashes.{avoid}

Also write a demonstration: a small Rust test (a new #[test] in a new file or test module, kept separate from the production change) that FAILS with your change and PASSES without it. Verify both directions yourself (reverse-apply the production change to check the demonstration passes on the original code).

Deliver in {wt}/SEED/ (create it):
- patch.diff: `git diff` of the production change only (must apply with `git apply` to a clean checkout of the same commit);
- demo.diff: the diff that adds the demonstration test only, and demo_cmd.txt with the exact cargo command that runs it (one line starting with `cargo`);
- NOTES.md: which property it breaks and why, what exactly is needed for the breakage to manifest, what you ran (commands + result summary lines) to show: compiles, existing tests of the changed crate pass with the change, demo fails with the change, demo passes without it.
Leave the worktree with the production change and demo applied. Do not commit. In your final answer summarise the change in 5-10 lines and list the files in SEED/. If your first idea turns out to be caught by existing tests, try another; spend your effort on making the change subtle and the evidence solid.""")


if __name__ == "__main__":
    main()
