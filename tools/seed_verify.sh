#!/usr/bin/env bash
# Confirms an independently written breaking change and runs our checks against it.
#   tools/seed_verify.sh <ID> <worktree> <check-id> [<check-id> ...]
# Expects <worktree>/SEED/{patch.diff,demo.diff,demo_cmd.txt,NOTES.md} with both diffs applied.
set -u
ID="$1"; WT="$2"; shift 2
ROOT="$(cd "$(dirname "${BASH_SOURCE[0]}")/.." && pwd)"
DEST="$ROOT/seeded/$ID"
mkdir -p "$DEST"
cp "$WT/SEED/patch.diff" "$WT/SEED/demo.diff" "$WT/SEED/demo_cmd.txt" "$WT/SEED/NOTES.md" "$DEST/" 2>/dev/null
LOG="$DEST/verify.log"; : > "$LOG"
export CARGO_TARGET_DIR="$WT/target"
DEMO_CMD="$(grep -v '^\s*#' "$WT/SEED/demo_cmd.txt" | grep cargo | head -1)"
echo "demo command: $DEMO_CMD" | tee -a "$LOG"
cd "$WT" || exit 2
echo "== demo WITH the change (must fail)" | tee -a "$LOG"
( eval "$DEMO_CMD" ) >> "$LOG" 2>&1; with=$?
echo "exit=$with" | tee -a "$LOG"
git apply -R SEED/patch.diff >> "$LOG" 2>&1 || { echo "cannot reverse patch" | tee -a "$LOG"; exit 2; }
echo "== demo WITHOUT the change (must pass)" | tee -a "$LOG"
( eval "$DEMO_CMD" ) >> "$LOG" 2>&1; without=$?
echo "exit=$without" | tee -a "$LOG"
git apply SEED/patch.diff >> "$LOG" 2>&1
unset CARGO_TARGET_DIR
cd "$ROOT" || exit 2
echo "== our checks against the change" | tee -a "$LOG"
# evidence/ must describe the unchanged tree: keep it aside while checks run on the changed one
SAVE="$(mktemp -d /dev/shm/verif-evidence.XXXXXX)"; cp -a "$ROOT/evidence/." "$SAVE/"
git -C /repo apply "$DEST/patch.diff" >> "$LOG" 2>&1 || { echo "patch does not apply to /repo" | tee -a "$LOG"; exit 2; }
results=""
for c in "$@"; do
  out="$(./check "$c" quick 2>&1)"; rc=$?
  echo "$out" | grep -E "violation signature|VIOLATION|held on|INCONCLUSIVE|BUILD FAILED" | cut -c1-400 | head -4 >> "$LOG"
  echo "check $c exit=$rc" | tee -a "$LOG"
  results="$results $c=$rc"
done
git -C /repo apply -R "$DEST/patch.diff" >> "$LOG" 2>&1
cp -a "$SAVE/." "$ROOT/evidence/"; rm -rf "$SAVE"
git -C /repo status --short | tee -a "$LOG"
echo "SUMMARY id=$ID demo_with=$with demo_without=$without checks:$results" | tee -a "$LOG"
