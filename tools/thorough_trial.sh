#!/usr/bin/env bash
# Runs the thorough tier of the given checks under a wall-clock budget each (exit 2 = budget hit,
# i.e. inconclusive, is expected for the long ones) and restores the committed quick-tier evidence.
ROOT="$(cd "$(dirname "${BASH_SOURCE[0]}")/.." && pwd)"
cd "$ROOT" || exit 2
BUDGET="${BUDGET:-240}"
CHECKS="${*:-C08 C16 C10 C09 C11 C12 C13 C15 C14 C18 C01 C02 C03 C04 C05 C06 C07 C17}"
for c in $CHECKS; do
  s=$(date +%s)
  out="$(VERIF_BUDGET_S=$BUDGET VERIF_FUZZ_SECS=${FUZZ_SECS:-120} ./check "$c" thorough 2>&1)"; rc=$?
  echo "thorough $c exit=$rc $(( $(date +%s) - s ))s $(echo "$out" | grep -E "held on|INCONCLUSIVE" | tail -1 | cut -c1-160)" >> out/thorough.log
  if [ $rc -eq 1 ]; then echo "$out" | grep -E "violation signature" | cut -c1-600 >> out/thorough.log; fi
done
git checkout evidence/ 2>/dev/null
echo THOROUGH-DONE >> out/thorough.log
