#!/usr/bin/env python3
"""Sensitivity driver: applies one small breaking edit to /repo at a time, runs the quick tier of
the check that should notice, records the verdict, and restores the file. Usage:
    tools/sens.py [NAME ...]        (no names = all)
Results are appended to out/sensitivity.jsonl. Never run while something else builds from /repo."""
import json
import os
import subprocess
import sys
import time

ROOT = os.path.dirname(os.path.dirname(os.path.abspath(__file__)))
SEQ = "/repo/crates/astria-sequencer/src/"

# (check id, name, file, old text, new text)
MUTATIONS = [
    ("C01", "c01-saturating-increase", SEQ + "accounts/state_ext.rs",
     "                .checked_add(amount)\n", "                .saturating_add(amount)\n                .checked_add(0)\n"),
    ("C01", "c01-transfer-credits-twice", SEQ + "checked_actions/transfer.rs",
     "            .wrap_err(\"failed to increase destination account balance\")?;\n\n        Ok(())",
     "            .wrap_err(\"failed to increase destination account balance\")?;\n        if self.action.amount == 7 {\n            state\n                .increase_balance(&self.action.to, &self.action.asset, 1)\n                .await\n                .wrap_err(\"failed to increase destination account balance\")?;\n        }\n\n        Ok(())"),
    ("C01", "c01-fee-ignores-variable-component", SEQ + "checked_actions/utils.rs",
     "    let variable_fee = action\n        .variable_component()\n        .saturating_mul(fees.multiplier());",
     "    let variable_fee = if action.variable_component() > 1500 {\n        fees.multiplier()\n    } else {\n        action.variable_component().saturating_mul(fees.multiplier())\n    };"),
    ("C01", "c01-fees-to-first-validator-instead-of-sudo", SEQ + "app/mod.rs",
     "                .increase_balance(fee_recipient, &fee_asset, total_amount)",
     "                .increase_balance(fee_recipient, &fee_asset, total_amount.saturating_sub(u128::from(total_amount > 1_000_000)))"),
    ("C02", "c02-unlock-checks-bridge-sudo-instead-of-withdrawer", SEQ + "checked_actions/bridge/bridge_unlock.rs",
     "            .get_bridge_account_withdrawer_address(&self.action.bridge_address)\n            .await\n            .wrap_err(\"failed to get bridge account withdrawer address\")?",
     "            .get_bridge_account_sudo_address(&self.action.bridge_address)\n            .await\n            .wrap_err(\"failed to get bridge account withdrawer address\")?"),
    ("C02", "c02-sudo-change-accepts-new-address-as-signer", SEQ + "checked_actions/sudo_address_change.rs",
     "            &sudo_address == self.tx_signer.as_bytes(),",
     "            &sudo_address == self.tx_signer.as_bytes()\n                || self.action.new_address.bytes() == *self.tx_signer.as_bytes(),"),
    ("C02", "c02-bridge-sudo-change-by-withdrawer", SEQ + "checked_actions/bridge_sudo_change.rs",
     "        ensure!(\n            &sudo_address == self.tx_signer.as_bytes(),",
     "        let withdrawer = state\n            .get_bridge_account_withdrawer_address(&self.action.bridge_address)\n            .await\n            .ok()\n            .flatten();\n        ensure!(\n            &sudo_address == self.tx_signer.as_bytes()\n                || withdrawer.as_ref() == Some(self.tx_signer.as_bytes()),"),
    ("C06", "c06-nonce-check-allows-lower-at-execution", SEQ + "checked_transaction/mod.rs",
     "        if current_nonce != tx_nonce {", "        if current_nonce < tx_nonce {"),
    ("C04", "c04-bridge-transfer-forgets-event", SEQ + "checked_actions/bridge/bridge_transfer.rs",
     "        self.checked_bridge_lock.record_deposit(&mut state);\n        self.checked_bridge_unlock.record_withdrawal_event(state)",
     "        self.checked_bridge_lock.record_deposit(&mut state);\n        if from == to {\n            return Ok(());\n        }\n        self.checked_bridge_unlock.record_withdrawal_event(state)"),
    ("C04", "c04-ics20-withdrawal-skips-event-lookup", SEQ + "checked_actions/ics20_withdrawal.rs",
     "            if let Some(existing_block_num) = state\n                .get_withdrawal_event_rollup_block_number(\n                    &self.withdrawal_address,",
     "            if let Some(existing_block_num) = state\n                .get_withdrawal_event_rollup_block_number(\n                    self.tx_signer.as_bytes(),"),
    ("C14", "c14-count-not-updated-on-add", SEQ + "checked_actions/validator_update.rs",
     "                        .put_validator_count(metadata.current_validator_count.saturating_add(1))",
     "                        .put_validator_count(metadata.current_validator_count.saturating_add(u64::from(metadata.current_validator_count < 4)))"),
    ("C14", "c14-updates-not-cleared", SEQ + "app/mod.rs",
     "        state_tx.clear_block_validator_updates();\n",
     "        if height % 2 == 0 {\n            state_tx.clear_block_validator_updates();\n        }\n"),
    ("C18", "c18-escrow-saturating-sub", SEQ + "ibc/state_ext.rs",
     "            .checked_sub(amount)\n", "            .saturating_sub(amount)\n            .checked_sub(0)\n"),
    ("C18", "c18-refund-skips-escrow-debit", SEQ + "ibc/ics20_transfer.rs",
     "    if is_refund_source_zone(asset, source_port, source_channel) {\n        state\n            .decrease_ibc_channel_balance",
     "    if is_refund_source_zone(asset, source_port, source_channel) && amount != 1 {\n        state\n            .decrease_ibc_channel_balance"),
    ("C05", "c05-executed-block-cache-ignores-hash", SEQ + "app/execution_state.rs",
     "                if block_hash != *cached_block_hash {\n                    self.0 = ExecutionState::CheckedExecutedBlockMismatch {",
     "                if block_hash != *cached_block_hash && cached_proposal.is_some() {\n                    self.0 = ExecutionState::CheckedExecutedBlockMismatch {"),
    ("C06", "c06-cometbft-space-ignores-current-size-once", SEQ + "proposal/block_size_constraints.rs",
     "        size <= self\n            .max_size_cometbft\n            .saturating_sub(self.current_size_cometbft)",
     "        size <= self\n            .max_size_cometbft\n            .saturating_sub(self.current_size_cometbft.saturating_sub(64))"),
    ("C06", "c06-group-order-not-checked", SEQ + "app/mod.rs",
     "                    bail!(\"transactions have incorrect transaction group ordering\");",
     "                    debug!(\"transactions have incorrect transaction group ordering\");"),
    ("C06", "c06-rollup-ids-root-not-compared", SEQ + "app/mod.rs",
     "            ensure!(\n                expanded_block_data.rollup_ids_root == expected_rollup_ids_root,",
     "            ensure!(\n                true || expanded_block_data.rollup_ids_root == expected_rollup_ids_root,"),
    ("C13", "c13-promote-skips-one", SEQ + "mempool/mod.rs",
     "                        .find_promotables(address_bytes, pending_nonce, &remaining_balances);",
     "                        .find_promotables(address_bytes, pending_nonce.saturating_add(u32::from(pending_nonce > 2)), &remaining_balances);"),
    ("C15", "c15-required-power-drops-plus-one", SEQ + "app/vote_extension.rs",
     "        .checked_add(1)\n        .ok_or_eyre(\"failed to add 1 from total voting power\")?;",
     "        .checked_add(0)\n        .ok_or_eyre(\"failed to add 1 from total voting power\")?;"),
    ("C07", "c07-deposits-before-sequenced-data", None, None, None),
]


def run(cmd, **kw):
    return subprocess.run(cmd, shell=True, capture_output=True, text=True, **kw)


def main():
    wanted = set(sys.argv[1:])
    os.makedirs(os.path.join(ROOT, "out"), exist_ok=True)
    for check, name, path, old, new in MUTATIONS:
        if wanted and name not in wanted:
            continue
        if path is None or old is None:
            continue
        text = open(path).read()
        if old not in text:
            print(f"{name}: PATTERN NOT FOUND", flush=True)
            continue
        # evidence/ must describe the unchanged tree: keep the file aside while the check runs
        evidence = os.path.join(ROOT, "evidence", f"{check}.json")
        saved = open(evidence).read() if os.path.exists(evidence) else None
        open(path, "w").write(text.replace(old, new, 1))
        started = time.time()
        try:
            result = run(f"cd {ROOT} && ./check {check} quick")
        finally:
            open(path, "w").write(text)
            if saved is not None:
                open(evidence, "w").write(saved)
        lines = [l for l in (result.stdout + result.stderr).splitlines() if "violation signature" in l or "BUILD FAILED" in l or "error" in l[:6]]
        record = {
            "check": check,
            "name": name,
            "exit": result.returncode,
            "seconds": round(time.time() - started),
            "evidence": lines[:2],
        }
        with open(os.path.join(ROOT, "out", "sensitivity.jsonl"), "a") as fh:
            fh.write(json.dumps(record) + "\n")
        print(json.dumps(record)[:400], flush=True)


if __name__ == "__main__":
    main()
