#!/usr/bin/env python3
"""Writes the results of tools/sens.py (out/sensitivity.jsonl) into DESIGN.md section 10."""
import json
import os
import re

ROOT = os.path.dirname(os.path.dirname(os.path.abspath(__file__)))
rows = ["| edit | check | verdict | seconds | first line of the report |", "|---|---|---|---|---|"]
latest = {}
for line in open(os.path.join(ROOT, "out", "sensitivity.jsonl")):
    r = json.loads(line)
    latest[r["name"]] = r
for name, r in latest.items():
    verdict = {0: "NOT FLAGGED", 1: "flagged", 2: "inconclusive (edit does not build?)"}.get(r["exit"], str(r["exit"]))
    first = (r["evidence"][0] if r["evidence"] else "").replace("|", "\\|")[:160]
    rows.append(f"| `{name}` | {r['check']} | {verdict} | {r['seconds']} | {first} |")
table = "\n".join(rows)
design = os.path.join(ROOT, "DESIGN.md")
text = open(design).read()
text = re.sub(r"<!-- SENS_TABLE_BEGIN -->.*?<!-- SENS_TABLE_END -->",
              lambda _m: "<!-- SENS_TABLE_BEGIN -->\n" + table + "\n<!-- SENS_TABLE_END -->", text, flags=re.S)
open(design, "w").write(text)
print(table)
