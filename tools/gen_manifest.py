#!/usr/bin/env python3
"""Generates /verif/MANIFEST.json from the table below (kept next to the checks so that the
manifest is always valid and in sync with what is actually built)."""
import json
import os
import subprocess

ROOT = os.path.dirname(os.path.dirname(os.path.abspath(__file__)))

# id -> (engine, level, technique, level text, level note, design ref)
CLAIMED = {
    "C08": (
        "vlight",
        "exploration",
        "property-based testing: exhaustive small-tree enumeration + proptest generation, "
        "reference-model oracle (independent RFC 6962 MTH/PATH), metamorphic tamper oracle, "
        "totality oracle over arbitrary decodable (path, index, size) triples",
        "No counter-example among every tree of 0..=64 leaves (all indices, three leaf flavours), "
        "thousands of random trees up to 2^16 leaves with single mutations of leaf / path element / "
        "root, and tens of thousands of arbitrary decodable proof triples (boundary-biased over all of "
        "u64). Generated-input search is the right level: the property quantifies over inputs and has "
        "an exact executable reference.",
        "Trusted: the harness' RFC 6962 transcription, SHA-256 collision resistance, proptest. "
        "Not proved: absence of failures outside the generated sizes.",
        "DESIGN.md 4/C08",
    ),
}

NOT_YET = {}


def main():
    props = [json.loads(line) for line in open(os.path.join(ROOT, "properties.jsonl"))]
    hooks_commits = []
    try:
        out = subprocess.run(
            ["git", "-C", "/repo", "log", "--format=%h %s"], capture_output=True, text=True
        ).stdout
        for line in out.splitlines():
            sha, _, subject = line.partition(" ")
            if subject.startswith("verif-hook:"):
                hooks_commits.append(sha)
    except OSError:
        pass
    checks = []
    not_applicable = []
    for prop in props:
        pid = prop["id"]
        if pid in CLAIMED:
            engine, level, technique, text, note, ref = CLAIMED[pid]
            checks.append(
                {
                    "property_id": pid,
                    "quick_cmd": f"./check {pid} quick",
                    "thorough_cmd": f"./check {pid} thorough",
                    "evidence_file": f"/verif/evidence/{pid}.json",
                    "replay_cmd_template": f"./check {pid} --replay {{path}}",
                    "engine": engine,
                    "level_claimed": {"category": level, "text": text, "design_ref": ref},
                    "level_note": note,
                    "technique": technique,
                }
            )
        else:
            not_applicable.append(
                {
                    "property_id": pid,
                    "reason": NOT_YET.get(
                        pid,
                        "check not built yet in this session (planned: see DESIGN.md section 4); "
                        "no claim is made until a check exists",
                    ),
                }
            )
    manifest = {
        "version": 1,
        "setup_cmd": "./check --build",
        "hooks": {
            "guard": "cargo feature `verif` (off by default) on astria-sequencer, astria-conductor, "
            "astria-sequencer-relayer, astria-composer",
            "enable": "the harness crates in /verif/harness depend on the /repo crates by path with "
            "features = [\"verif\"]; `./check` rebuilds them from /repo's working tree on every run",
            "baseline_off_cmd": "cd /repo && cargo nextest run --workspace --no-fail-fast "
            "--test-threads 8 --offline",
            "source_commits": hooks_commits,
            "add_only": True,
        },
        "engines": [
            {
                "name": "vlight",
                "path": "harness/vlight",
                "serves_properties": ["C08", "C17"],
                "kind_free_text": "proptest-driven binary over astria-merkle and astria-core "
                "(no hooks needed)",
            },
            {
                "name": "vseq",
                "path": "harness/vseq",
                "serves_properties": [
                    "C01", "C02", "C03", "C04", "C05", "C06", "C07", "C13", "C14", "C15", "C17",
                    "C18",
                ],
                "kind_free_text": "proptest-driven stateful histories against the real sequencer "
                "App / Mempool through the `verif` facade",
            },
            {
                "name": "voff",
                "path": "harness/voff",
                "serves_properties": ["C07", "C09", "C10", "C11", "C12", "C16", "C17"],
                "kind_free_text": "proptest-driven checks of conductor, relayer and composer "
                "through their `verif` facades and in-process fakes",
            },
        ],
        "checks": checks,
        "not_applicable": not_applicable,
        "notes": "All checks are generated-input searches (proptest; libFuzzer for the thorough tier "
        "of byte-level targets) against explicit oracles. Exit 0 = held on everything explored, "
        "1 = VIOLATION line + replay file, 2 = inconclusive (build failure / vacuity guard). "
        "Genuine defects repaired in /repo are listed in known_findings.json with status=fixed.",
    }
    with open(os.path.join(ROOT, "MANIFEST.json"), "w") as fh:
        json.dump(manifest, fh, indent=1)
        fh.write("\n")


if __name__ == "__main__":
    main()
