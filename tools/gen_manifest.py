#!/usr/bin/env python3
"""Generates /verif/MANIFEST.json from the table below (kept next to the checks so that the
manifest is always valid and in sync with what is actually built)."""
import json
import os
import subprocess

ROOT = os.path.dirname(os.path.dirname(os.path.abspath(__file__)))

# id -> (engine, level, technique, level text, level note, design ref)
HIST_NOTE = (
    "Trusted: the `verif` facade forwards to the real code (reviewable, add-only); CometBFT / IBC "
    "counterparties are modelled (DESIGN.md section 7); proptest. Not proved: absence of failures "
    "outside the generated histories."
)

CLAIMED = {
    "C01": (
        "vseq", "exploration",
        "stateful property-based testing: generated chain histories interpreted against the real App, "
        "arbitrary-precision reference model of every balance / escrow / fee-pot change per transaction",
        "No counter-example in hundreds (quick) to tens of thousands (thorough) of generated histories "
        "(genesis with balances up to u128::MAX and arbitrary fee schedules, 1-6 blocks, transactions of "
        "all value-moving action types, fee-schedule changes, IBC packets). Every transaction's effect on "
        "every account, escrow and the fee pot is compared with an independent model; fee events with "
        "base + multiplier x size; pot routing at block end.",
        HIST_NOTE, "DESIGN.md 4/C01",
    ),
    "C02": (
        "vseq", "exploration",
        "stateful property-based testing: generated histories with wrong / former authorities, "
        "observational invariant over the full state diff of every successful transaction",
        "No counter-example in generated histories biased to privileged actions with 40% explicitly "
        "chosen (wrong, former, foreign) signers: every balance decrease of a non-signer and every "
        "changed key of a privileged family is justified by the authority stored before the transaction.",
        HIST_NOTE, "DESIGN.md 4/C02",
    ),
    "C03": (
        "vseq", "exploration",
        "stateful property-based testing: generated histories with stale / gapped nonces, byte-identical "
        "replays and multi-action bundles failing at every index; full-state-dump equality oracle",
        "No counter-example in generated histories: a successful transaction raises exactly the signer's "
        "nonce by one and never succeeds twice; a failed one leaves the complete state dump (verifiable, "
        "non-verifiable, fee pot, cached deposits) byte-identical.",
        HIST_NOTE, "DESIGN.md 4/C03",
    ),
    "C04": (
        "vseq", "exploration",
        "stateful property-based testing: generated bridge histories (locks, unlocks, bridge transfers, "
        "ICS-20 in/out, administration) with a model of honoured withdrawal events and a backing invariant",
        "No counter-example in generated histories: every deposit registered for a block names a bridge "
        "with matching rollup and asset and is covered by a credit in the same transaction or packet; "
        "failed transactions and packets without effect register none; a (bridge, event id) pair is "
        "honoured at most once whichever action carries it. Found and led to the repair of defect 998b4ca.",
        HIST_NOTE, "DESIGN.md 4/C04",
    ),
    "C08": (
        "vlight",
        "exploration",
        "property-based testing: exhaustive small-tree enumeration + proptest generation, "
        "reference-model oracle (independent RFC 6962 MTH/PATH), metamorphic tamper oracle, "
        "totality oracle over arbitrary decodable (path, index, size) triples",
        "No counter-example among every tree of 0..=64 leaves (all indices, three leaf flavours), "
        "thousands of random trees up to 2^16 leaves with single mutations of leaf / path element / "
        "root, and tens of thousands of arbitrary decodable proof triples (boundary-biased over all of "
        "u64). Generated-input search is the right level: the property quantifies over inputs and has "
        "an exact executable reference.",
        "Trusted: the harness' RFC 6962 transcription, SHA-256 collision resistance, proptest. "
        "Not proved: absence of failures outside the generated sizes.",
        "DESIGN.md 4/C08",
    ),
    "C09": (
        "vconductor", "exploration",
        "property-based testing: generated validator sets, commits (signature subsets around the 2/3 "
        "boundary, duplicates, forgeries) and Celestia blobs through the real decode/verify/reconstruct "
        "pipeline; reference-predicate oracle",
        "No counter-example in 80 000 (quick) generated Celestia heights: a reconstructed block implies "
        "matching chain id and block hash and strictly more than 2/3 of the voting power of distinct "
        "validators with valid signatures; rollup data is attached only with a verifying proof; nothing "
        "panics. Found and led to the repair of three defects (927ccd7, 7862220, b75b105).",
        "Trusted: the CometBFT RPC seam (commit / validators responses are built by the harness from real "
        "tendermint types and ed25519 signatures); proptest.", "DESIGN.md 4/C09",
    ),
    "C10": (
        "vconductor", "exploration",
        "stateful property-based testing: generated soft/firm arrival schedules stepped through the real "
        "executor state machine against an in-process contract-checking fake rollup; history invariant "
        "over the RPC log",
        "No counter-example in 30 000 (quick) generated schedules over all commit-level modes and session "
        "offsets: exactly one ExecuteBlock per height, in order, on the right parent; commitments monotone, "
        "firm <= soft, firm names an executed block; stale / duplicate / skip-ahead deliveries never execute.",
        "Trusted: the fake rollup (harness) and the step function mirroring the executor loop's biased "
        "select through the real execute_soft / execute_firm; interleavings inside one call are not "
        "enumerated.", "DESIGN.md 4/C10",
    ),
    "C14": (
        "vseq", "exploration",
        "stateful property-based testing: generated validator-update histories across the Aspen upgrade, "
        "reference model of CometBFT's validator-set update rules",
        "Generated histories of validator add/update/remove sequences (several per block, repeated keys) "
        "folded into a CometBFT model and compared with the stored set after every commit. Two genuine "
        "defects are recorded as known findings (see known_findings.json); no other counter-example.",
        HIST_NOTE, "DESIGN.md 4/C14",
    ),
    "C16": (
        "vcomposer", "exploration",
        "stateful property-based testing: generated push/pop sequences against the real BundleFactory "
        "with a reference queue model and order / size / refusal invariants",
        "No counter-example in 20 000 (quick) generated push / pop-finished / pop-now sequences with sizes "
        "around the limit and queue capacities 0..4.",
        "Trusted: the facade forwards to the real BundleFactory; the size limit is the one the code "
        "documents (sum of encoded action sizes).", "DESIGN.md 4/C16",
    ),
    "C17": (
        "vconductor", "exploration",
        "structure-aware mutation fuzzing (proptest): protobuf-field-level mutations of honest Celestia "
        "blobs through the conductor's decode and reconstruct path; no-panic and round-trip oracles",
        "No panic and no inconsistent accepted value in 150 000 (quick) mutated blob sets (conductor "
        "decoders). Transaction and sequencer-block decoders are being added (see DESIGN.md).",
        "Trusted: proptest; only the conductor wire path is covered by this check so far.",
        "DESIGN.md 4/C17",
    ),
    "C18": (
        "vseq", "exploration",
        "stateful property-based testing: generated ICS-20 histories (withdrawals, receives, acks, "
        "timeouts) with an escrow ledger model and a reference predicate for unappliable packets",
        "No counter-example in generated histories over 2 channels x 4 assets: stored escrow equals "
        "sent - returned - refunded after every operation, no release beyond escrow, unappliable packets "
        "are acknowledged and change nothing. Found and led to the repair of defect 998b4ca.",
        HIST_NOTE, "DESIGN.md 4/C18",
    ),
}

NOT_YET = {}


def main():
    props = [json.loads(line) for line in open(os.path.join(ROOT, "properties.jsonl"))]
    hooks_commits = []
    try:
        out = subprocess.run(
            ["git", "-C", "/repo", "log", "--format=%h %s"], capture_output=True, text=True
        ).stdout
        for line in out.splitlines():
            sha, _, subject = line.partition(" ")
            if subject.startswith("verif-hook:"):
                hooks_commits.append(sha)
    except OSError:
        pass
    checks = []
    not_applicable = []
    for prop in props:
        pid = prop["id"]
        if pid in CLAIMED:
            engine, level, technique, text, note, ref = CLAIMED[pid]
            checks.append(
                {
                    "property_id": pid,
                    "quick_cmd": f"./check {pid} quick",
                    "thorough_cmd": f"./check {pid} thorough",
                    "evidence_file": f"/verif/evidence/{pid}.json",
                    "replay_cmd_template": f"./check {pid} --replay {{path}}",
                    "engine": engine,
                    "level_claimed": {"category": level, "text": text, "design_ref": ref},
                    "level_note": note,
                    "technique": technique,
                }
            )
        else:
            not_applicable.append(
                {
                    "property_id": pid,
                    "reason": NOT_YET.get(
                        pid,
                        "check not built yet in this session (planned: see DESIGN.md section 4); "
                        "no claim is made until a check exists",
                    ),
                }
            )
    manifest = {
        "version": 1,
        "setup_cmd": "./check --build",
        "hooks": {
            "guard": "cargo feature `verif` (off by default) on astria-sequencer, astria-conductor, "
            "astria-sequencer-relayer, astria-composer",
            "enable": "the harness crates in /verif/harness depend on the /repo crates by path with "
            "features = [\"verif\"]; `./check` rebuilds them from /repo's working tree on every run",
            "baseline_off_cmd": "cd /repo && cargo nextest run --workspace --no-fail-fast "
            "--test-threads 8 --offline",
            "source_commits": hooks_commits,
            "add_only": True,
        },
        "engines": [
            {
                "name": "vlight",
                "path": "harness/vlight",
                "serves_properties": ["C08", "C17"],
                "kind_free_text": "proptest-driven binary over astria-merkle and astria-core "
                "(no hooks needed)",
            },
            {
                "name": "vseq",
                "path": "harness/vseq",
                "serves_properties": [
                    "C01", "C02", "C03", "C04", "C05", "C06", "C07", "C13", "C14", "C15", "C17",
                    "C18",
                ],
                "kind_free_text": "proptest-driven stateful histories against the real sequencer "
                "App / Mempool through the `verif` facade",
            },
            {
                "name": "vconductor",
                "path": "harness/vconductor",
                "serves_properties": ["C09", "C10", "C17"],
                "kind_free_text": "proptest-driven checks of the conductor through its `verif` facade "
                "and an in-process fake rollup",
            },
            {
                "name": "vrelayer",
                "path": "harness/vrelayer",
                "serves_properties": ["C07", "C11", "C12"],
                "kind_free_text": "proptest-driven checks / fault enumeration of the sequencer-relayer",
            },
            {
                "name": "vcomposer",
                "path": "harness/vcomposer",
                "serves_properties": ["C16"],
                "kind_free_text": "proptest-driven check of the composer's bundle factory",
            },
        ],
        "checks": checks,
        "not_applicable": not_applicable,
        "notes": "All checks are generated-input searches (proptest; libFuzzer for the thorough tier "
        "of byte-level targets) against explicit oracles. Exit 0 = held on everything explored, "
        "1 = VIOLATION line + replay file, 2 = inconclusive (build failure / vacuity guard). "
        "Genuine defects repaired in /repo are listed in known_findings.json with status=fixed.",
    }
    with open(os.path.join(ROOT, "MANIFEST.json"), "w") as fh:
        json.dump(manifest, fh, indent=1)
        fh.write("\n")


if __name__ == "__main__":
    main()
