//! C08 — Merkle tree: RFC 6962 roots, complete and sound proofs, total verification.
//!
//! Oracle: an independent recursive RFC 6962 `MTH` / `PATH` implementation (below). The code under
//! test is only reached through the public API of `astria-merkle` (and `astria-core`'s protobuf
//! conversion for `merkle::Proof`).

use astria_core::{
    generated::astria::primitive::v1 as raw,
    Protobuf as _,
};
use astria_merkle::{
    audit::Proof,
    Tree,
};
use proptest::prelude::*;
use serde::{
    Deserialize,
    Serialize,
};
use sha2::{
    Digest as _,
    Sha256,
};
use vcommon::{
    catch,
    gen::{
        pick_index,
        HexBytes,
    },
    panic_failure,
    vensure,
    vfail,
    CaseResult,
    Ctx,
    Prop,
    Session,
    Tier,
};

// ---------------------------------------------------------------------------------------------
// reference implementation (RFC 6962 section 2.1)
// ---------------------------------------------------------------------------------------------

fn ref_leaf(d: &[u8]) -> [u8; 32] {
    let mut h = Sha256::new();
    h.update([0x00]);
    h.update(d);
    h.finalize().into()
}

fn ref_node(l: &[u8; 32], r: &[u8; 32]) -> [u8; 32] {
    let mut h = Sha256::new();
    h.update([0x01]);
    h.update(l);
    h.update(r);
    h.finalize().into()
}

/// largest power of two strictly smaller than `n` (n >= 2)
fn split(n: usize) -> usize {
    let mut k = 1;
    while k << 1 < n {
        k <<= 1;
    }
    k
}

pub fn ref_mth(leaf_hashes: &[[u8; 32]]) -> [u8; 32] {
    match leaf_hashes.len() {
        0 => Sha256::digest(b"").into(),
        1 => leaf_hashes[0],
        n => {
            let k = split(n);
            ref_node(&ref_mth(&leaf_hashes[..k]), &ref_mth(&leaf_hashes[k..]))
        }
    }
}

pub fn ref_path(m: usize, leaf_hashes: &[[u8; 32]]) -> Vec<[u8; 32]> {
    let n = leaf_hashes.len();
    if n <= 1 {
        return Vec::new();
    }
    let k = split(n);
    if m < k {
        let mut p = ref_path(m, &leaf_hashes[..k]);
        p.push(ref_mth(&leaf_hashes[k..]));
        p
    } else {
        let mut p = ref_path(m - k, &leaf_hashes[k..]);
        p.push(ref_mth(&leaf_hashes[..k]));
        p
    }
}

/// RFC 6962-bis style verification of an audit path, written independently of the crate.
fn ref_verify(
    m: usize,
    n: usize,
    leaf_hash: [u8; 32],
    path: &[[u8; 32]],
    root: [u8; 32],
) -> bool {
    if m >= n {
        return false;
    }
    let mut fn_ = m;
    let mut sn = n - 1;
    let mut r = leaf_hash;
    for p in path {
        if sn == 0 {
            return false;
        }
        if fn_ & 1 == 1 || fn_ == sn {
            r = ref_node(p, &r);
            if fn_ & 1 == 0 {
                while fn_ & 1 == 0 && fn_ != 0 {
                    fn_ >>= 1;
                    sn >>= 1;
                }
            }
        } else {
            r = ref_node(&r, p);
        }
        fn_ >>= 1;
        sn >>= 1;
    }
    sn == 0 && r == root
}

fn flat(path: &[[u8; 32]]) -> Vec<u8> {
    path.iter().flatten().copied().collect()
}

// ---------------------------------------------------------------------------------------------
// sub-check 1: exhaustive small trees
// ---------------------------------------------------------------------------------------------

fn small_leaf(i: usize, flavour: u8) -> Vec<u8> {
    match flavour {
        0 => (i as u32).to_le_bytes().to_vec(),
        1 => Vec::new(), // all leaves equal and empty
        _ => {
            // leaves that look like inner nodes of the same tree (second pre-image shape)
            let a = ref_leaf(&(i as u32).to_le_bytes());
            let b = ref_leaf(&((i + 1) as u32).to_le_bytes());
            let mut v = vec![];
            v.extend_from_slice(&a);
            v.extend_from_slice(&b);
            v
        }
    }
}

#[derive(Clone, Debug, Serialize, Deserialize)]
pub struct SmallTree {
    n: usize,
    flavour: u8,
}

fn check_tree_against_reference(leaves: &[Vec<u8>], indices: &[usize], ctx: &mut Ctx) -> CaseResult {
    let n = leaves.len();
    let hashes: Vec<[u8; 32]> = leaves.iter().map(|l| ref_leaf(l)).collect();
    // incremental construction: root must equal MTH of every prefix
    let mut tree = Tree::new();
    vensure!(
        tree.root() == ref_mth(&[]),
        "root-mismatch",
        "empty tree root differs from MTH of the empty list"
    );
    let check_all_prefixes = n <= 80;
    for (i, leaf) in leaves.iter().enumerate() {
        tree.push(leaf);
        if check_all_prefixes || i + 1 == n {
            let expected = ref_mth(&hashes[..=i]);
            vensure!(
                tree.root() == expected,
                "root-mismatch",
                "root of {} leaves is {} but RFC 6962 MTH is {}",
                i + 1,
                hex::encode(tree.root()),
                hex::encode(expected)
            );
        }
    }
    let root = tree.root();
    let from_leaves = Tree::from_leaves(leaves.iter());
    vensure!(
        from_leaves.root() == root,
        "root-mismatch",
        "from_leaves and push disagree for {n} leaves"
    );
    vensure!(
        n == 0 || tree.len() == 2 * n - 1,
        "len-mismatch",
        "tree of {n} leaves reports {} nodes",
        tree.len()
    );
    vensure!(
        tree.construct_proof(n).is_none(),
        "proof-for-absent-leaf",
        "construct_proof({n}) on a tree of {n} leaves returned a proof"
    );
    for &i in indices {
        let Some(proof) = tree.construct_proof(i) else {
            vfail!("proof-missing", "no proof for leaf {i} of {n}");
        };
        let expected = ref_path(i, &hashes);
        vensure!(
            proof.audit_path() == flat(&expected).as_slice(),
            "path-mismatch",
            "audit path of leaf {i}/{n} differs from RFC 6962 PATH"
        );
        vensure!(
            proof.leaf_index() == i && proof.tree_size().get() == tree.len(),
            "proof-fields",
            "proof for leaf {i}/{n} has leaf_index={} tree_size={}",
            proof.leaf_index(),
            proof.tree_size()
        );
        vensure!(
            proof.verify(&leaves[i], root),
            "complete-proof-rejected",
            "proof constructed for leaf {i}/{n} does not verify against the tree root"
        );
        vensure!(
            ref_verify(i, n, hashes[i], &expected, root),
            "harness-reference-broken",
            "reference verifier rejects the reference path (harness bug)"
        );
        vensure!(
            proof.reconstruct_root_with_leaf(&leaves[i]) == root,
            "complete-proof-rejected",
            "reconstruct_root_with_leaf differs from root for leaf {i}/{n}"
        );
        vensure!(
            tree.leaf(i) == Some(hashes[i]),
            "leaf-hash",
            "stored leaf hash {i}/{n} is not SHA256(0x00 || leaf)"
        );
        if n > 1 && !n.is_power_of_two() && i >= split(n) {
            ctx.nontrivial();
        }
    }
    Ok(())
}

fn small_tree_case(case: &SmallTree, ctx: &mut Ctx) -> CaseResult {
    let leaves: Vec<Vec<u8>> = (0..case.n).map(|i| small_leaf(i, case.flavour)).collect();
    let indices: Vec<usize> = (0..case.n).collect();
    ctx.label(format!("flavour{}", case.flavour));
    check_tree_against_reference(&leaves, &indices, ctx)
}

// ---------------------------------------------------------------------------------------------
// sub-check 2: random trees + single mutations (soundness)
// ---------------------------------------------------------------------------------------------

#[derive(Clone, Debug, Serialize, Deserialize)]
pub enum LeafKind {
    Empty,
    Short(HexBytes),
    /// 32 bytes — the size of a node hash
    HashSized(HexBytes),
    /// 64 bytes: the concatenation of two sibling hashes of the same tree (chosen at run time)
    NodeLike,
    Long(HexBytes),
}

#[derive(Clone, Debug, Serialize, Deserialize)]
pub enum Mutation {
    /// flip one bit of the leaf (or append a byte when the leaf is empty)
    LeafBit(u16, u8),
    /// use the content of another leaf of the tree (different content guaranteed by the oracle)
    OtherLeaf(u16),
    /// present the leaf *hash* as leaf content
    LeafHashAsLeaf,
    /// present `left || right` of the leaf's parent as leaf content with the parent's path
    PathBit(u16, u16),
    /// swap two different path elements
    PathSwap(u16, u16),
    /// replace a path element by the leaf hash
    PathReplaceWithLeafHash(u16),
    RootBit(u16),
    /// claim the root of the tree without its last leaf
    RootOfPrefix,
}

#[derive(Clone, Debug, Serialize, Deserialize)]
pub struct RandomTree {
    size: usize,
    kinds: Vec<LeafKind>,
    indices: Vec<u16>,
    mutations: Vec<Mutation>,
}

fn leaf_kind() -> impl Strategy<Value = LeafKind> {
    prop_oneof![
        2 => Just(LeafKind::Empty),
        6 => proptest::collection::vec(any::<u8>(), 1..8).prop_map(|v| LeafKind::Short(HexBytes(v))),
        3 => proptest::collection::vec(any::<u8>(), 32..=32)
            .prop_map(|v| LeafKind::HashSized(HexBytes(v))),
        2 => Just(LeafKind::NodeLike),
        2 => proptest::collection::vec(any::<u8>(), 60..70).prop_map(|v| LeafKind::Long(HexBytes(v))),
    ]
}

fn mutation() -> impl Strategy<Value = Mutation> {
    prop_oneof![
        (any::<u16>(), 0_u8..8).prop_map(|(a, b)| Mutation::LeafBit(a, b)),
        any::<u16>().prop_map(Mutation::OtherLeaf),
        Just(Mutation::LeafHashAsLeaf),
        (any::<u16>(), any::<u16>()).prop_map(|(a, b)| Mutation::PathBit(a, b)),
        (any::<u16>(), any::<u16>()).prop_map(|(a, b)| Mutation::PathSwap(a, b)),
        any::<u16>().prop_map(Mutation::PathReplaceWithLeafHash),
        any::<u16>().prop_map(Mutation::RootBit),
        Just(Mutation::RootOfPrefix),
    ]
}

fn random_tree(tier: Tier) -> BoxedStrategy<RandomTree> {
    let size = match tier {
        Tier::Quick => prop_oneof![
            6 => 1_usize..=40,
            3 => 41_usize..=300,
            1 => prop_oneof![Just(255_usize), Just(256), Just(257), Just(1023), Just(1025)],
        ]
        .boxed(),
        Tier::Thorough => prop_oneof![
            6 => 1_usize..=64,
            3 => 65_usize..=3000,
            1 => prop_oneof![
                Just(4095_usize), Just(4096), Just(4097), Just(65535), Just(65536), 3000_usize..=65536
            ],
        ]
        .boxed(),
    };
    (
        size,
        proptest::collection::vec(leaf_kind(), 1..6),
        proptest::collection::vec(any::<u16>(), 1..6),
        proptest::collection::vec(mutation(), 1..8),
    )
        .prop_map(|(size, kinds, indices, mutations)| RandomTree {
            size,
            kinds,
            indices,
            mutations,
        })
        .boxed()
}

fn materialise(case: &RandomTree) -> Vec<Vec<u8>> {
    // leaf i takes kind i mod kinds.len(), made distinct by a counter suffix where the kind allows
    let mut leaves: Vec<Vec<u8>> = Vec::with_capacity(case.size);
    for i in 0..case.size {
        let kind = &case.kinds[i % case.kinds.len()];
        let leaf = match kind {
            LeafKind::Empty => Vec::new(),
            LeafKind::Short(b) => {
                let mut v = b.0.clone();
                v.extend_from_slice(&(i as u32).to_le_bytes()[..(i % 3)]);
                v
            }
            LeafKind::HashSized(b) => {
                let mut v = b.0.clone();
                v[0] ^= i as u8;
                v
            }
            LeafKind::NodeLike => {
                // the two preceding leaf hashes, i.e. exactly the pre-image of an inner node
                let a = leaves.get(i.wrapping_sub(2)).map_or([0_u8; 32], |l| ref_leaf(l));
                let b = leaves.get(i.wrapping_sub(1)).map_or([1_u8; 32], |l| ref_leaf(l));
                let mut v = a.to_vec();
                v.extend_from_slice(&b);
                v
            }
            LeafKind::Long(b) => {
                let mut v = b.0.clone();
                v.extend_from_slice(&(i as u64).to_le_bytes());
                v
            }
        };
        leaves.push(leaf);
    }
    leaves
}

fn random_tree_case(case: &RandomTree, ctx: &mut Ctx) -> CaseResult {
    let leaves = materialise(case);
    let n = leaves.len();
    let indices: Vec<usize> = case.indices.iter().map(|s| pick_index(*s, n)).collect();
    check_tree_against_reference(&leaves, &indices, ctx)?;

    let hashes: Vec<[u8; 32]> = leaves.iter().map(|l| ref_leaf(l)).collect();
    let tree = Tree::from_leaves(leaves.iter());
    let root = tree.root();
    let mut applied = 0;
    for (k, mutation) in case.mutations.iter().enumerate() {
        let i = indices[k % indices.len()];
        let proof = tree.construct_proof(i).expect("checked above");
        let path: Vec<[u8; 32]> = proof
            .audit_path()
            .chunks(32)
            .map(|c| c.try_into().unwrap())
            .collect();
        let rebuild = |path: &[[u8; 32]]| -> Proof {
            Proof::unchecked()
                .audit_path(flat(path))
                .leaf_index(i)
                .tree_size(proof.tree_size().get())
                .try_into_proof()
                .expect("same index and size as a valid proof")
        };
        let (label, accepted, detail): (&str, bool, String) = match mutation {
            Mutation::LeafBit(pos, bit) => {
                let mut leaf = leaves[i].clone();
                if leaf.is_empty() {
                    leaf.push(1 << bit);
                } else {
                    let p = pick_index(*pos, leaf.len());
                    leaf[p] ^= 1 << bit;
                }
                ("leaf-bit", proof.verify(&leaf, root), format!("leaf {i}/{n} bit flipped"))
            }
            Mutation::OtherLeaf(sel) => {
                let j = pick_index(*sel, n);
                if leaves[j] == leaves[i] {
                    continue;
                }
                ("other-leaf", proof.verify(&leaves[j], root), format!("leaf {j} shown with proof of {i}/{n}"))
            }
            Mutation::LeafHashAsLeaf => (
                "leaf-hash-as-leaf",
                proof.verify(&hashes[i], root),
                format!("hash of leaf {i}/{n} shown as leaf"),
            ),
            Mutation::PathBit(el, bit) => {
                if path.is_empty() {
                    continue;
                }
                let mut p = path.clone();
                let e = pick_index(*el, p.len());
                let b = pick_index(*bit, 256);
                p[e][b / 8] ^= 1 << (b % 8);
                (
                    "path-bit",
                    rebuild(&p).verify(&leaves[i], root),
                    format!("path element {e} of leaf {i}/{n} bit {b} flipped"),
                )
            }
            Mutation::PathSwap(a, b) => {
                if path.len() < 2 {
                    continue;
                }
                let mut p = path.clone();
                let x = pick_index(*a, p.len());
                let y = pick_index(*b, p.len());
                if p[x] == p[y] {
                    continue;
                }
                p.swap(x, y);
                (
                    "path-swap",
                    rebuild(&p).verify(&leaves[i], root),
                    format!("path elements {x},{y} of leaf {i}/{n} swapped"),
                )
            }
            Mutation::PathReplaceWithLeafHash(el) => {
                if path.is_empty() {
                    continue;
                }
                let mut p = path.clone();
                let e = pick_index(*el, p.len());
                if p[e] == hashes[i] {
                    continue;
                }
                p[e] = hashes[i];
                (
                    "path-replace",
                    rebuild(&p).verify(&leaves[i], root),
                    format!("path element {e} of leaf {i}/{n} replaced by the leaf hash"),
                )
            }
            Mutation::RootBit(bit) => {
                let mut r = root;
                let b = pick_index(*bit, 256);
                r[b / 8] ^= 1 << (b % 8);
                ("root-bit", proof.verify(&leaves[i], r), format!("root bit {b} flipped for leaf {i}/{n}"))
            }
            Mutation::RootOfPrefix => {
                if n < 2 {
                    continue;
                }
                let r = ref_mth(&hashes[..n - 1]);
                if r == root {
                    continue;
                }
                ("root-of-prefix", proof.verify(&leaves[i], r), format!("root of the first {} leaves claimed for leaf {i}/{n}", n - 1))
            }
        };
        applied += 1;
        ctx.label(label);
        vensure!(
            !accepted,
            format!("unsound-accept:{label}"),
            "verification returned true after tampering: {detail}"
        );
    }
    if applied > 0 && !n.is_power_of_two() {
        ctx.nontrivial();
    }
    Ok(())
}

// ---------------------------------------------------------------------------------------------
// sub-check 3: arbitrary decodable triples — total verification
// ---------------------------------------------------------------------------------------------

#[derive(Clone, Debug, Serialize, Deserialize)]
pub struct Triple {
    path_elems: usize,
    /// extra bytes appended to the path (0 keeps it a multiple of 32)
    ragged: u8,
    fill: u8,
    leaf_index: u64,
    tree_size: u64,
    leaf: HexBytes,
    root_seed: u8,
    /// go through `astria_core`'s protobuf conversion instead of `UncheckedProof`
    via_protobuf: bool,
}

fn boundary_u64() -> BoxedStrategy<u64> {
    let around = |c: u64| (c.saturating_sub(3)..=c.saturating_add(3)).boxed();
    prop_oneof![
        8 => 0_u64..40,
        3 => 40_u64..100_000,
        2 => around(u32::MAX as u64),
        2 => around(1 << 62),
        3 => around((usize::MAX / 2) as u64),
        2 => around(1 << 63),
        3 => around(u64::MAX),
        2 => any::<u64>(),
    ]
    .boxed()
}

fn triple(_tier: Tier) -> BoxedStrategy<Triple> {
    (
        prop_oneof![6 => 0_usize..8, 3 => 8_usize..=64, 2 => 65_usize..=70],
        prop_oneof![9 => Just(0_u8), 1 => 1_u8..32],
        any::<u8>(),
        boundary_u64(),
        boundary_u64(),
        proptest::collection::vec(any::<u8>(), 0..40).prop_map(HexBytes),
        any::<u8>(),
        any::<bool>(),
    )
        .prop_map(
            |(path_elems, ragged, fill, leaf_index, tree_size, leaf, root_seed, via_protobuf)| {
                Triple {
                    path_elems,
                    ragged,
                    fill,
                    leaf_index,
                    tree_size,
                    leaf,
                    root_seed,
                    via_protobuf,
                }
            },
        )
        .boxed()
}

fn triple_case(case: &Triple, ctx: &mut Ctx) -> CaseResult {
    let mut audit_path = vec![case.fill; case.path_elems * 32];
    for (i, b) in audit_path.iter_mut().enumerate() {
        *b = b.wrapping_add((i / 32) as u8);
    }
    audit_path.extend(std::iter::repeat(7).take(case.ragged as usize));
    let root = [case.root_seed; 32];

    let decoded = catch(|| {
        if case.via_protobuf {
            Proof::try_from_raw(raw::Proof {
                audit_path: audit_path.clone().into(),
                leaf_index: case.leaf_index,
                tree_size: case.tree_size,
            })
            .ok()
        } else {
            Proof::unchecked()
                .audit_path(audit_path.clone())
                .leaf_index(case.leaf_index as usize)
                .tree_size(case.tree_size as usize)
                .try_into_proof()
                .ok()
        }
    });
    let proof = match decoded {
        Err(panic) => {
            let f = panic_failure(panic);
            vfail!(
                "decode-panic",
                "decoding (path {} elems + {} bytes, leaf_index {}, tree_size {}) panicked: {}",
                case.path_elems,
                case.ragged,
                case.leaf_index,
                case.tree_size,
                f.message
            );
        }
        Ok(None) => {
            ctx.label("rejected");
            // rejection must be justified: a triple produced by the crate itself never is
            return Ok(());
        }
        Ok(Some(proof)) => proof,
    };
    ctx.label("decoded");
    // tree_size counts nodes; a consistent triple has an odd node count and the path length of
    // RFC 6962 for that leaf
    let consistent = case.tree_size % 2 == 1 && {
        let leaves = (case.tree_size / 2 + 1) as usize;
        expected_path_len(case.leaf_index as usize, leaves) == Some(case.path_elems)
    };
    if !consistent {
        ctx.label("decoded-inconsistent");
        ctx.nontrivial();
    }
    let verdict = catch(|| proof.verify(&case.leaf.0, root));
    match verdict {
        Ok(accepted) => {
            // a constant-fill path against a constant root: acceptance would be a SHA-256 miracle
            // unless the path is empty and root is the leaf hash
            if accepted {
                vensure!(
                    case.path_elems == 0 && ref_leaf(&case.leaf.0) == root,
                    "unsound-accept:arbitrary-triple",
                    "arbitrary triple verified against an unrelated root"
                );
            }
        }
        Err(panic) => {
            let f = panic_failure(panic);
            vfail!(
                "verify-panic",
                "verify() of decodable proof (path {} elems, leaf_index {}, tree_size {}) panicked: {}",
                case.path_elems,
                case.leaf_index,
                case.tree_size,
                f.message
            );
        }
    }
    // round trip through protobuf must preserve the proof
    let raw = proof.clone().into_raw();
    match catch(|| Proof::try_from_raw(raw)) {
        Ok(Ok(again)) => vensure!(
            again == proof,
            "proof-roundtrip",
            "proof differs after into_raw/try_from_raw"
        ),
        Ok(Err(error)) => vfail!("proof-roundtrip", "re-encoded proof rejected: {error}"),
        Err(panic) => vfail!("decode-panic", "re-decoding panicked: {}", panic_failure(panic).message),
    }
    Ok(())
}

fn expected_path_len(m: usize, n: usize) -> Option<usize> {
    if m >= n {
        return None;
    }
    let mut len = 0;
    let (mut m, mut n) = (m, n);
    while n > 1 {
        let k = split(n);
        if m < k {
            n = k;
        } else {
            m -= k;
            n -= k;
        }
        len += 1;
    }
    Some(len)
}

// ---------------------------------------------------------------------------------------------
// sub-check 4: a valid proof with a wrong shape (truncated / extended path, other index or size)
// ---------------------------------------------------------------------------------------------

#[derive(Clone, Debug, Serialize, Deserialize)]
pub enum Reshape {
    DropLast,
    DropFirst,
    AppendRoot,
    AppendCopyOfLast,
    AppendMany(u8),
    OtherIndex(u16),
    /// node count of a tree with that many leaves
    OtherLeafCount(u16),
    EvenNodeCount,
    HugeIndex,
    HugeSize,
}

#[derive(Clone, Debug, Serialize, Deserialize)]
pub struct Reshaped {
    size: usize,
    index: u16,
    reshape: Reshape,
}

fn reshaped(_tier: Tier) -> BoxedStrategy<Reshaped> {
    (
        prop_oneof![8 => 1_usize..=33, 2 => 34_usize..=200],
        any::<u16>(),
        prop_oneof![
            Just(Reshape::DropLast),
            Just(Reshape::DropFirst),
            Just(Reshape::AppendRoot),
            Just(Reshape::AppendCopyOfLast),
            (1_u8..70).prop_map(Reshape::AppendMany),
            any::<u16>().prop_map(Reshape::OtherIndex),
            any::<u16>().prop_map(Reshape::OtherLeafCount),
            Just(Reshape::EvenNodeCount),
            Just(Reshape::HugeIndex),
            Just(Reshape::HugeSize),
        ],
    )
        .prop_map(|(size, index, reshape)| Reshaped {
            size,
            index,
            reshape,
        })
        .boxed()
}

fn reshaped_case(case: &Reshaped, ctx: &mut Ctx) -> CaseResult {
    let n = case.size;
    let leaves: Vec<Vec<u8>> = (0..n).map(|i| small_leaf(i, 0)).collect();
    let hashes: Vec<[u8; 32]> = leaves.iter().map(|l| ref_leaf(l)).collect();
    let tree = Tree::from_leaves(leaves.iter());
    let root = tree.root();
    let i = pick_index(case.index, n);
    let proof = tree.construct_proof(i).expect("leaf is in tree");
    let mut path: Vec<[u8; 32]> = proof
        .audit_path()
        .chunks(32)
        .map(|c| c.try_into().unwrap())
        .collect();
    let mut index = i;
    let mut nodes = tree.len();
    match &case.reshape {
        Reshape::DropLast => {
            if path.pop().is_none() {
                return Ok(());
            }
        }
        Reshape::DropFirst => {
            if path.is_empty() {
                return Ok(());
            }
            path.remove(0);
        }
        Reshape::AppendRoot => path.push(root),
        Reshape::AppendCopyOfLast => path.push(path.last().copied().unwrap_or([9; 32])),
        Reshape::AppendMany(k) => path.extend(std::iter::repeat([3_u8; 32]).take(*k as usize)),
        Reshape::OtherIndex(sel) => {
            index = pick_index(*sel, n);
            if index == i {
                return Ok(());
            }
        }
        Reshape::OtherLeafCount(sel) => {
            let other = 1 + pick_index(*sel, 2 * n + 2);
            if other == n || i >= other {
                return Ok(());
            }
            nodes = 2 * other - 1;
        }
        Reshape::EvenNodeCount => {
            nodes += 1;
        }
        Reshape::HugeIndex => {
            index = usize::MAX / 2 + 1 + i;
        }
        Reshape::HugeSize => {
            nodes = usize::MAX - (i % 2);
        }
    }
    ctx.label(format!("{:?}", std::mem::discriminant(&case.reshape)));
    let decoded = catch(|| {
        Proof::unchecked()
            .audit_path(flat(&path))
            .leaf_index(index)
            .tree_size(nodes)
            .try_into_proof()
            .ok()
    });
    let reshaped = match decoded {
        Err(panic) => vfail!(
            "decode-panic",
            "decoding reshaped proof (index {index}, nodes {nodes}, path {}) panicked: {}",
            path.len(),
            panic_failure(panic).message
        ),
        Ok(None) => {
            ctx.label("rejected-at-decode");
            return Ok(());
        }
        Ok(Some(p)) => p,
    };
    ctx.nontrivial();
    match catch(|| reshaped.verify(&leaves[i], root)) {
        Err(panic) => vfail!(
            "verify-panic",
            "verify() of reshaped proof (leaf {i}/{n}: index {index}, nodes {nodes}, path {} elems, {:?}) panicked: {}",
            path.len(),
            case.reshape,
            panic_failure(panic).message
        ),
        Ok(accepted) => {
            // The presented leaf content is the one the proof was built for and the root is the
            // real one, so the statement only demands "a bool, no panic" here. The one exception:
            // a path with an element removed can only be accepted by a verifier that ignores its
            // inputs, which is unsound for every other proof as well.
            let _ = (&hashes, index);
            let dropped = matches!(case.reshape, Reshape::DropLast | Reshape::DropFirst);
            vensure!(
                !(accepted && dropped),
                "unsound-accept:reshaped",
                "proof with a removed path element (leaf {i}/{n}, {:?}) verified",
                case.reshape
            );
            if accepted {
                ctx.label("reshaped-accepted");
                // Whatever shape was accepted, it is now a proof that verifies, and the statement
                // says that changing any of its path elements makes verification return false:
                // an element the verifier never looks at (e.g. one beyond the root of a tree of
                // the claimed size) breaks that.
                for j in 0..path.len() {
                    let mut changed = path.clone();
                    changed[j][j % 32] ^= 1 << (j % 8);
                    let still = catch(|| {
                        Proof::unchecked()
                            .audit_path(flat(&changed))
                            .leaf_index(index)
                            .tree_size(nodes)
                            .try_into_proof()
                            .ok()
                            .map(|p| p.verify(&leaves[i], root))
                    });
                    ctx.label("accepted-shape-element-mutated");
                    vensure!(
                        !matches!(still, Ok(Some(true))),
                        "unsound-accept:path-element-ignored",
                        "reshaped proof (leaf {i}/{n}: index {index}, nodes {nodes}, path {} elems, {:?}) verifies, \
                         and still verifies after changing path element {j}",
                        path.len(),
                        case.reshape
                    );
                }
            }
        }
    }
    Ok(())
}

pub fn run(args: &[String]) -> ! {
    let mut s = Session::from_args("C08", "exploration", args);
    s.assume("SHA-256 is collision resistant (a tampered proof that verifies is counted as a violation, not as a collision)");
    s.assume("the reference is an independent transcription of RFC 6962 section 2.1 (MTH, PATH) in the harness");

    let max_n = s.tier.pick(64_usize, 257);
    let cases: Vec<SmallTree> = (0..=max_n)
        .flat_map(|n| (0..3_u8).map(move |flavour| SmallTree { n, flavour }))
        .collect();
    s.run_enum(
        "small_exhaustive",
        "every leaf count 0..=N (N=64 quick, 257 thorough) x three leaf-content flavours x every leaf \
         index; root vs RFC 6962 MTH after every push, proof vs PATH, proof verifies. Non-trivial: \
         a non-power-of-two tree containing a leaf in the last incomplete subtree",
        true,
        cases,
        small_tree_case,
    );
    s.run_prop(Prop {
        name: "random_trees_mutations",
        rule: "random leaf counts (quick up to 1025, thorough up to 65536) and leaf contents (empty, \
               hash-sized, pre-image-of-node shaped); reference comparison for sampled indices, then \
               single mutations of leaf / one path element / root must not verify. Non-trivial: \
               non-power-of-two leaf count with at least one applied mutation",
        cases_quick: 6_000,
        cases_thorough: 120_000,
        shards: 12,
        min_nontrivial: 0.3,
        max_shrink_iters: 4000,
        strategy: Box::new(random_tree),
        test: Box::new(random_tree_case),
    });
    s.run_prop(Prop {
        name: "decodable_triples",
        rule: "arbitrary (audit path of 0..=70 elements, sometimes ragged; leaf_index, tree_size over \
               all of u64 biased to 0, 2^32, 2^62, usize::MAX/2, 2^63, u64::MAX) through \
               UncheckedProof::try_into_proof or the protobuf conversion: decoding never panics; \
               every decodable triple verifies to a bool without panic. Non-trivial: a decodable \
               triple that is not the shape of any real proof",
        cases_quick: 60_000,
        cases_thorough: 2_000_000,
        shards: 12,
        min_nontrivial: 0.05,
        max_shrink_iters: 4000,
        strategy: Box::new(triple),
        test: Box::new(triple_case),
    });
    s.run_prop(Prop {
        name: "reshaped_valid_proofs",
        rule: "a valid proof whose path is truncated/extended or whose index/size is replaced: \
               decode and verify never panic and verify returns false unless the reshaped triple is \
               itself the RFC 6962 proof. Non-trivial: the reshaped triple is decodable",
        cases_quick: 20_000,
        cases_thorough: 400_000,
        shards: 12,
        min_nontrivial: 0.3,
        max_shrink_iters: 4000,
        strategy: Box::new(reshaped),
        test: Box::new(reshaped_case),
    });
    s.finish()
}
