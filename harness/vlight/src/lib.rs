//! Checks that only need `astria-merkle` and `astria-core`: C08, and the core-decoder part of C17.
//! A library so that the libFuzzer targets under `/verif/fuzz` run exactly the oracles the
//! proptest tier runs.

pub mod c08;
pub mod c17;
