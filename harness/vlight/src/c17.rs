//! C17 (astria-core part) — untrusted wire data never panics a decoder; accepted values are
//! self-consistent.
//!
//! Valid encodings of every wire type named by the property are produced from generated values,
//! mutated at the protobuf-field level (and at the byte level), and pushed through the public
//! decoders. Oracle: the outcome is `Err` or `Ok(v)`, never a panic; `Ok(v)` re-encodes to bytes
//! that decode again to an equal value (which re-runs the type's own checks: signature, Merkle
//! proofs against the header roots).

use astria_core::{
    crypto::SigningKey,
    generated::astria::{
        protocol::transaction::v1 as rawtx,
        sequencerblock::v1 as rawblock,
    },
    primitive::v1::{
        Address,
        RollupId,
    },
    protocol::{
        transaction::v1::{
            action::{
                self,
                BridgeLock,
                BridgeSudoChange,
                BridgeTransfer,
                BridgeUnlock,
                FeeAssetChange,
                FeeChange,
                IbcRelayerChange,
                IbcSudoChange,
                Ics20Withdrawal,
                InitBridgeAccount,
                RollupDataSubmission,
                SudoAddressChange,
                Transfer,
                ValidatorUpdate,
            },
            Action,
            Transaction,
            TransactionBody,
        },
    },
    sequencerblock::v1::{
        block::{
            Deposit,
            FilteredSequencerBlock,
        },
        SequencerBlock,
        SubmittedMetadata,
        SubmittedRollupData,
    },
    Protobuf as _,
};
use prost::Message as _;
use proptest::prelude::*;
use serde::{
    Deserialize,
    Serialize,
};
use vcommon::{
    catch,
    gen::HexBytes,
    panic_failure,
    vensure,
    vfail,
    wire::mutation::{
        self,
        Mutation,
    },
    CaseResult,
    Ctx,
    Prop,
    Session,
    Tier,
};

#[derive(Clone, Copy, Debug, Serialize, Deserialize, PartialEq, Eq)]
pub enum Target {
    Transaction,
    SequencerBlock,
    FilteredBlock,
    Metadata,
    RollupData,
    Proof,
}

#[derive(Clone, Debug, Serialize, Deserialize)]
pub struct Case {
    target: Target,
    /// (rollup selector, payload) sequenced in the block
    data: Vec<(u8, HexBytes)>,
    deposits: u8,
    height: u8,
    /// action kinds of the transaction
    actions: Vec<u8>,
    mutations: Vec<Mutation>,
    /// decode these raw bytes as well (no structure at all)
    raw: Option<HexBytes>,
    /// which encoding of the extended commit info the block's proposer chose (0 = canonical)
    #[serde(default)]
    commit_encoding: u8,
}

fn case(_tier: Tier) -> BoxedStrategy<Case> {
    (
        prop_oneof![
            Just(Target::Transaction),
            Just(Target::SequencerBlock),
            Just(Target::FilteredBlock),
            Just(Target::Metadata),
            Just(Target::RollupData),
            Just(Target::Proof),
        ],
        proptest::collection::vec((0_u8..4, vcommon::gen::hex_serde_bytes(24)), 0..6),
        0_u8..3,
        1_u8..5,
        proptest::collection::vec(0_u8..N_ACTION_KINDS, 1..4),
        proptest::collection::vec(mutation::strategy(), 0..=3),
        proptest::option::weighted(0.1, vcommon::gen::hex_serde_bytes(80)),
        prop_oneof![3 => Just(0_u8), 5 => 1_u8..6],
    )
        .prop_map(|(target, data, deposits, height, actions, mutations, raw, commit_encoding)| Case {
            target,
            data,
            deposits,
            height,
            actions,
            mutations,
            raw,
            commit_encoding,
        })
        .boxed()
}

fn key() -> SigningKey {
    SigningKey::from([9; 32])
}

fn address(byte: u8) -> Address {
    Address::builder().prefix("astria").array([byte; 20]).try_build().unwrap()
}

fn rollup(sel: u8) -> RollupId {
    RollupId::from_unhashed_bytes([b'r', sel])
}

/// The extended-commit-info data item of the generated block, in one of several encodings of the
/// *same* value: the proposer chooses the bytes, the block's data hash and proof commit to them,
/// and every decoder downstream must keep them as they are.
fn commit_info_bytes(variant: u8) -> Vec<u8> {
    use astria_core::{
        oracles::price_feed::types::v2::CurrencyPairId,
        protocol::{
            price_feed::v1::CurrencyPairInfo,
            test_utils::minimal_extended_commit_info,
        },
    };
    let mut info = minimal_extended_commit_info();
    info.id_to_currency_pair.insert(
        CurrencyPairId::new(1),
        CurrencyPairInfo {
            currency_pair: "BTC/USD".parse().unwrap(),
            decimals: 8,
        },
    );
    let canonical = info.into_raw().encode_to_vec();
    // the canonical form starts with field 1 = empty `ExtendedCommitInfo` (round 0, no votes)
    let starts_with_empty_commit = canonical.starts_with(&[0x0a, 0x00]);
    match variant % 6 {
        // unknown varint field 15 appended
        1 => [canonical, vec![0x78, 0x05]].concat(),
        // unknown length-delimited field 14 appended
        2 => [canonical, vec![0x72, 0x02, 0xaa, 0xbb]].concat(),
        // a second, empty occurrence of field 1 (protobuf merges embedded messages)
        3 => [canonical, vec![0x0a, 0x00]].concat(),
        // `round = 0` written out explicitly inside field 1
        4 if starts_with_empty_commit => [vec![0x0a, 0x02, 0x08, 0x00], canonical[2..].to_vec()].concat(),
        // non-minimal varint for the length of field 1
        5 if starts_with_empty_commit => [vec![0x0a, 0x80, 0x00], canonical[2..].to_vec()].concat(),
        _ => canonical,
    }
}

/// `ConfigureSequencerBlock::make` with the extended commit info bytes chosen by the case.
fn block(case: &Case) -> SequencerBlock {
    use std::collections::HashMap;

    use astria_core::{
        primitive::v1::derive_merkle_tree_from_rollup_txs,
        protocol::{
            group_rollup_data_submissions_by_rollup_id,
            test_utils::upgrade_change_hashes_bytes,
        },
        sequencerblock::v1::{
            block::{
                ExpandedBlockData,
                RollupData,
                SequencerBlockBuilder,
            },
            DataItem,
        },
    };
    let signing_key = key();
    let chain_id = "verif".to_string();
    let deposits: Vec<Deposit> = (0..case.deposits)
        .map(|i| Deposit {
            bridge_address: address(40 + i),
            rollup_id: rollup(i),
            amount: 1000 + u128::from(i),
            asset: "nria".parse().unwrap(),
            destination_chain_address: "dest".to_string(),
            source_transaction_id: astria_core::primitive::v1::TransactionId::new([i; 32]),
            source_action_index: u64::from(i),
        })
        .collect();
    let actions: Vec<Action> = case
        .data
        .iter()
        .map(|(r, d)| {
            Action::RollupDataSubmission(RollupDataSubmission {
                rollup_id: rollup(*r),
                data: d.0.clone().into(),
                fee_asset: "nria".parse().unwrap(),
            })
        })
        .collect();
    let txs: Vec<Transaction> = if actions.is_empty() {
        vec![]
    } else {
        vec![TransactionBody::builder()
            .actions(actions)
            .chain_id(chain_id.clone())
            .nonce(1)
            .try_build()
            .expect("rollup data submissions bundle")
            .sign(&signing_key)]
    };
    let mut deposits_map: HashMap<RollupId, Vec<Deposit>> = HashMap::new();
    for deposit in deposits {
        deposits_map.entry(deposit.rollup_id).or_default().push(deposit);
    }
    let submissions = txs.iter().flat_map(|tx| {
        tx.actions().iter().filter_map(|action| match action {
            Action::RollupDataSubmission(submission) => Some((&submission.rollup_id, &submission.data)),
            _ => None,
        })
    });
    let rollup_data_bytes = submissions.clone().map(|(id, data)| (*id, data.clone())).collect();
    let mut rollup_transactions = group_rollup_data_submissions_by_rollup_id(submissions);
    for (rollup_id, list) in deposits_map.clone() {
        rollup_transactions.entry(rollup_id).or_default().extend(
            list.into_iter()
                .map(|deposit| RollupData::Deposit(Box::new(deposit)).into_raw().encode_to_vec().into()),
        );
    }
    rollup_transactions.sort_unstable_keys();
    let rollup_transactions_tree = derive_merkle_tree_from_rollup_txs(&rollup_transactions);
    let rollup_ids_root =
        astria_merkle::Tree::from_leaves(rollup_transactions.keys().map(|id| id.as_ref().to_vec())).root();
    let mut data = vec![
        DataItem::RollupTransactionsRoot(rollup_transactions_tree.root()).encode(),
        DataItem::RollupIdsRoot(rollup_ids_root).encode(),
        upgrade_change_hashes_bytes(),
        DataItem::ExtendedCommitInfo(commit_info_bytes(case.commit_encoding).into()).encode(),
    ];
    data.extend(txs.iter().map(|tx| tx.to_raw().encode_to_vec().into()));
    let expanded_block_data =
        ExpandedBlockData::new_from_typed_data(&data, true).expect("generated block data is well formed");
    let public_key: tendermint::crypto::ed25519::VerificationKey =
        signing_key.verification_key().as_ref().try_into().unwrap();
    SequencerBlockBuilder {
        block_hash: astria_core::sequencerblock::v1::block::Hash::new([case.height; 32]),
        chain_id: chain_id.try_into().unwrap(),
        height: u32::from(case.height).into(),
        time: tendermint::Time::from_unix_timestamp(1_700_000_000, 0).unwrap(),
        proposer_address: tendermint::account::Id::from(public_key),
        expanded_block_data,
        rollup_data_bytes,
        deposits: deposits_map,
    }
    .try_build()
    .expect("generated block builds")
}

/// Number of action kinds `single_action` knows.
const N_ACTION_KINDS: u8 = 19;

/// Kinds 0..=6 are "bundleable general" and may be mixed in one transaction.
fn general_action(i: usize, kind: u8) -> Action {
    match kind {
        0 => Action::Transfer(Transfer {
            to: address(i as u8),
            amount: u128::MAX - i as u128,
            asset: "nria".parse().unwrap(),
            fee_asset: "nria".parse().unwrap(),
        }),
        1 => Action::RollupDataSubmission(RollupDataSubmission {
            rollup_id: rollup(i as u8),
            data: vec![i as u8; 5 + i].into(),
            fee_asset: "transfer/channel-0/utia".parse().unwrap(),
        }),
        2 => Action::BridgeLock(BridgeLock {
            to: address(7),
            amount: 5,
            asset: "nria".parse().unwrap(),
            fee_asset: "nria".parse().unwrap(),
            destination_chain_address: "rollup-address".to_string(),
        }),
        3 => Action::BridgeUnlock(BridgeUnlock {
            to: address(8),
            amount: 6,
            fee_asset: "nria".parse().unwrap(),
            bridge_address: address(9),
            memo: "memo".to_string(),
            rollup_block_number: 4,
            rollup_withdrawal_event_id: "event".to_string(),
        }),
        4 => Action::ValidatorUpdate(ValidatorUpdate {
            power: 10,
            verification_key: key().verification_key(),
            name: "validator".parse().unwrap(),
        }),
        5 => Action::Ics20Withdrawal(Ics20Withdrawal {
            amount: u128::MAX / 3 + i as u128,
            denom: "transfer/channel-1/uatom".parse().unwrap(),
            destination_chain_address: "cosmos1destination".to_string(),
            return_address: address(11),
            timeout_height: ibc_types::core::client::Height::new(2, 1_000_000).unwrap(),
            timeout_time: 1_800_000_000_000_000_000,
            source_channel: "channel-1".parse().unwrap(),
            fee_asset: "nria".parse().unwrap(),
            memo: if i % 2 == 0 { String::new() } else { "{\"rollupBlockNumber\":1}".to_string() },
            bridge_address: (i % 2 == 1).then(|| address(12)),
            use_compat_address: i % 3 == 0,
        }),
        _ => Action::BridgeTransfer(BridgeTransfer {
            to: address(13),
            amount: 77,
            fee_asset: "nria".parse().unwrap(),
            destination_chain_address: "0xabc".to_string(),
            bridge_address: address(14),
            rollup_block_number: 9,
            rollup_withdrawal_event_id: "transfer-event".to_string(),
        }),
    }
}

/// Kinds 7..N_ACTION_KINDS: sudo and unbundleable actions, one per transaction (or several of
/// the same bundleable-sudo group).
fn special_action(i: usize, kind: u8) -> Action {
    use astria_core::{
        oracles::price_feed::{
            market_map::v2::{
                Market,
                ProviderConfig,
                Ticker,
            },
            types::v2::CurrencyPair,
        },
        protocol::fees::v1::FeeComponents,
    };
    let pair = |base: &str| -> CurrencyPair { format!("{base}/USD").parse().unwrap() };
    let market = |base: &str| Market {
        ticker: Ticker {
            currency_pair: pair(base),
            decimals: 8,
            min_provider_count: 1,
            enabled: true,
            metadata_json: "{}".to_string(),
        },
        provider_configs: vec![ProviderConfig {
            name: "provider".to_string(),
            off_chain_ticker: format!("{base}USD"),
            normalize_by_pair: (i % 2 == 0).then(|| pair("USDT")),
            invert: i % 2 == 1,
            metadata_json: String::new(),
        }],
    };
    match kind {
        7 => Action::InitBridgeAccount(InitBridgeAccount {
            rollup_id: rollup(i as u8),
            asset: "nria".parse().unwrap(),
            fee_asset: "nria".parse().unwrap(),
            sudo_address: (i % 2 == 0).then(|| address(15)),
            withdrawer_address: (i % 3 == 0).then(|| address(16)),
        }),
        8 => Action::BridgeSudoChange(BridgeSudoChange {
            bridge_address: address(17),
            new_sudo_address: Some(address(18)),
            new_withdrawer_address: (i % 2 == 0).then(|| address(19)),
            fee_asset: "nria".parse().unwrap(),
            disable_deposits: i % 2 == 1,
        }),
        9 => Action::SudoAddressChange(SudoAddressChange {
            new_address: address(20),
        }),
        10 => Action::IbcSudoChange(IbcSudoChange {
            new_address: address(21),
        }),
        11 => Action::IbcRelayerChange(if i % 2 == 0 {
            IbcRelayerChange::Addition(address(22))
        } else {
            IbcRelayerChange::Removal(address(22))
        }),
        12 => Action::FeeAssetChange(if i % 2 == 0 {
            FeeAssetChange::Addition("transfer/channel-0/utia".parse().unwrap())
        } else {
            FeeAssetChange::Removal("nria".parse().unwrap())
        }),
        13 => Action::FeeChange(FeeChange::Transfer(FeeComponents::new(u128::MAX, 1))),
        14 => Action::FeeChange(FeeChange::RollupDataSubmission(FeeComponents::new(0, u128::MAX - 1))),
        15 => {
            let mut set = indexmap::IndexSet::new();
            set.insert(pair("BTC"));
            set.insert(pair("ETH"));
            Action::CurrencyPairsChange(if i % 2 == 0 {
                action::CurrencyPairsChange::Addition(set)
            } else {
                action::CurrencyPairsChange::Removal(set)
            })
        }
        16 => Action::MarketsChange(match i % 3 {
            0 => action::MarketsChange::Creation(vec![market("BTC"), market("ETH")]),
            1 => action::MarketsChange::Removal(vec![market("BTC")]),
            _ => action::MarketsChange::Update(vec![market("TIA")]),
        }),
        17 => Action::RecoverIbcClient(action::RecoverIbcClient {
            client_id: "07-tendermint-0".parse().unwrap(),
            replacement_client_id: "07-tendermint-1".parse().unwrap(),
        }),
        _ => Action::FeeChange(FeeChange::MarketsChange(FeeComponents::new(7, 0))),
    }
}

fn transaction(case: &Case) -> Transaction {
    let first = case.actions.first().copied().unwrap_or(0) % N_ACTION_KINDS;
    let actions: Vec<Action> = if first < 7 {
        case.actions
            .iter()
            .enumerate()
            .map(|(i, kind)| general_action(i, kind % 7))
            .collect()
    } else if matches!(first, 7..=10) {
        // unbundleable: exactly one action
        vec![special_action(case.actions.len(), first)]
    } else {
        // bundleable sudo: every action from that group
        case.actions
            .iter()
            .enumerate()
            .map(|(i, kind)| special_action(i, 11 + (kind % N_ACTION_KINDS) % (N_ACTION_KINDS - 11)))
            .collect()
    };
    TransactionBody::builder()
        .actions(actions)
        .chain_id("verif")
        .nonce(3)
        .try_build()
        .expect("generated bundles respect the action groups")
        .sign(&key())
}

/// decode(bytes): `None` = rejected, `Some(reencoded)` = accepted value re-encoded
type Decoder = fn(&[u8]) -> Option<Vec<u8>>;

fn decode_transaction(bytes: &[u8]) -> Option<Vec<u8>> {
    let raw = rawtx::Transaction::decode(bytes).ok()?;
    let tx = Transaction::try_from_raw(raw).ok()?;
    // the stated check: the signature verifies over the body
    let body = tx.to_raw().body.clone().unwrap_or_default();
    assert!(
        tx.verification_key().verify(&tx.signature(), &body.value).is_ok(),
        "accepted transaction whose signature does not verify"
    );
    Some(tx.into_raw().encode_to_vec())
}

fn decode_block(bytes: &[u8]) -> Option<Vec<u8>> {
    let raw = rawblock::SequencerBlock::decode(bytes).ok()?;
    let block = SequencerBlock::try_from_raw(raw).ok()?;
    Some(block.into_raw().encode_to_vec())
}

fn decode_filtered(bytes: &[u8]) -> Option<Vec<u8>> {
    let raw = rawblock::FilteredSequencerBlock::decode(bytes).ok()?;
    let block = FilteredSequencerBlock::try_from_raw(raw).ok()?;
    Some(block.into_raw().encode_to_vec())
}

fn decode_metadata(bytes: &[u8]) -> Option<Vec<u8>> {
    let raw = rawblock::SubmittedMetadata::decode(bytes).ok()?;
    let value = SubmittedMetadata::try_from_raw(raw).ok()?;
    Some(value.into_raw().encode_to_vec())
}

fn decode_rollup_data(bytes: &[u8]) -> Option<Vec<u8>> {
    let raw = rawblock::SubmittedRollupData::decode(bytes).ok()?;
    let value = SubmittedRollupData::try_from_raw(raw).ok()?;
    Some(value.into_raw().encode_to_vec())
}

fn decode_proof(bytes: &[u8]) -> Option<Vec<u8>> {
    let raw = astria_core::generated::astria::primitive::v1::Proof::decode(bytes).ok()?;
    let proof = astria_merkle::Proof::try_from_raw(raw).ok()?;
    // verification of an accepted proof is total
    let _ = proof.verify(b"leaf", [7; 32]);
    Some(proof.into_raw().encode_to_vec())
}

fn honest(case: &Case) -> (Vec<u8>, Decoder) {
    match case.target {
        Target::Transaction => (transaction(case).into_raw().encode_to_vec(), decode_transaction),
        Target::SequencerBlock => (block(case).into_raw().encode_to_vec(), decode_block),
        Target::FilteredBlock => {
            let block = block(case);
            let wanted: Vec<RollupId> = (0..2).map(rollup).collect();
            (block.into_filtered_block(wanted).into_raw().encode_to_vec(), decode_filtered)
        }
        Target::Metadata => {
            let (metadata, _) = block(case).split_for_celestia();
            (metadata.into_raw().encode_to_vec(), decode_metadata)
        }
        Target::RollupData => {
            let (_, mut rollup_data) = block(case).split_for_celestia();
            match rollup_data.pop() {
                Some(data) => (data.into_raw().encode_to_vec(), decode_rollup_data),
                None => (Vec::new(), decode_rollup_data),
            }
        }
        Target::Proof => {
            let tree = astria_merkle::Tree::from_leaves(case.data.iter().map(|(_, d)| d.0.clone()).chain([vec![1]]));
            let proof = tree.construct_proof(0).expect("tree has a leaf");
            (proof.into_raw().encode_to_vec(), decode_proof)
        }
    }
}

fn run_case(case: &Case, ctx: &mut Ctx) -> CaseResult {
    let (encoded, decode) = honest(case);
    ctx.label(format!("{:?}", case.target));
    if matches!(
        case.target,
        Target::SequencerBlock | Target::FilteredBlock | Target::Metadata
    ) && case.commit_encoding % 6 != 0
    {
        ctx.label("commit-info-encoded-non-canonically");
    }
    // the honest encoding is accepted and is a fixed point
    match catch(|| decode(&encoded)) {
        Ok(Some(again)) => vensure!(
            catch(|| decode(&again)).ok().flatten().as_deref() == Some(again.as_slice()),
            "reencoding-not-stable",
            "{:?}: re-encoding an accepted honest value changes it",
            case.target
        ),
        Ok(None) if encoded.is_empty() => {}
        Ok(None) => vfail!("honest-encoding-rejected", "{:?}: the decoder rejects an honest encoding", case.target),
        Err(panic) => vfail!("decode-panic", "{:?}: decoding an honest encoding panicked: {}", case.target, panic_failure(panic).message),
    }
    let mut inputs: Vec<Vec<u8>> = Vec::new();
    let (mutated, applied) = mutation::mutate(&encoded, &case.mutations);
    if applied > 0 {
        inputs.push(mutated);
    }
    if let Some(raw) = &case.raw {
        inputs.push(raw.0.clone());
    }
    if case.target == Target::Transaction && case.commit_encoding != 0 {
        // the type URL of the `Any` that carries the body is not covered by the signature and is
        // not kept by the typed value: variants of it around the expected one
        let mut raw = transaction(case).into_raw();
        if let Some(body) = raw.body.as_mut() {
            let url = body.type_url.clone();
            body.type_url = match case.commit_encoding % 6 {
                1 => format!("type.googleapis.com{url}"),
                2 => format!("x{url}"),
                3 => url.trim_start_matches('/').to_string(),
                4 => format!("/{url}"),
                5 => format!("{url}/"),
                _ => url.replacen("v1", "v1alpha1", 1),
            };
            ctx.label("body-type-url-variant");
            inputs.push(raw.encode_to_vec());
        }
    }
    for input in inputs {
        let proto_ok = match case.target {
            Target::Transaction => rawtx::Transaction::decode(input.as_slice()).is_ok(),
            Target::SequencerBlock => rawblock::SequencerBlock::decode(input.as_slice()).is_ok(),
            Target::FilteredBlock => rawblock::FilteredSequencerBlock::decode(input.as_slice()).is_ok(),
            Target::Metadata => rawblock::SubmittedMetadata::decode(input.as_slice()).is_ok(),
            Target::RollupData => rawblock::SubmittedRollupData::decode(input.as_slice()).is_ok(),
            Target::Proof => astria_core::generated::astria::primitive::v1::Proof::decode(input.as_slice()).is_ok(),
        };
        if proto_ok {
            ctx.nontrivial();
            ctx.label("reaches-validation");
        } else {
            ctx.label("rejected-by-protobuf");
        }
        match catch(|| decode(&input)) {
            Err(panic) => {
                let f = panic_failure(panic);
                vfail!(
                    "decode-panic",
                    "{:?}: decoding {} mutated bytes panicked: {} (input {})",
                    case.target,
                    input.len(),
                    f.message,
                    hex::encode(&input[..input.len().min(200)])
                );
            }
            Ok(None) => ctx.label("rejected"),
            Ok(Some(reencoded)) => {
                ctx.label("accepted-after-mutation");
                if case.target == Target::Transaction {
                    // "re-encodes to an equivalent message": every field of the message the
                    // typed value re-encodes to has the value received (unknown fields and
                    // non-canonical encodings aside - both sides go through the same protobuf
                    // decoder); otherwise one signed transaction has many accepted byte forms the
                    // node itself would never emit, and its hash is not the hash of what arrived
                    let received = rawtx::Transaction::decode(input.as_slice()).ok();
                    let emitted = rawtx::Transaction::decode(reencoded.as_slice()).ok();
                    vensure!(
                        received.is_some() && received == emitted,
                        "accepted-value-reencodes-to-different-message",
                        "Transaction: accepted bytes re-encode to a message that differs in a field value: received {:?}, re-encoded {:?}",
                        received.as_ref().map(|t| t.body.as_ref().map(|b| b.type_url.clone())),
                        emitted.as_ref().map(|t| t.body.as_ref().map(|b| b.type_url.clone()))
                    );
                }
                match catch(|| decode(&reencoded)) {
                    Ok(Some(again)) => vensure!(
                        again == reencoded,
                        "accepted-value-not-self-consistent",
                        "{:?}: an accepted mutated value re-encodes to something that decodes differently",
                        case.target
                    ),
                    Ok(None) => vfail!(
                        "accepted-value-not-self-consistent",
                        "{:?}: the re-encoding of an accepted value is rejected by the same decoder",
                        case.target
                    ),
                    Err(panic) => vfail!("decode-panic", "{:?}: re-decoding panicked: {}", case.target, panic_failure(panic).message),
                }
            }
        }
    }
    Ok(())
}

// ---------------------------------------------------------------------------------------------
// byte-level entry shared with the libFuzzer target `c17_decoders`
// ---------------------------------------------------------------------------------------------

const DECODERS: [(Target, Decoder); 6] = [
    (Target::Transaction, decode_transaction),
    (Target::SequencerBlock, decode_block),
    (Target::FilteredBlock, decode_filtered),
    (Target::Metadata, decode_metadata),
    (Target::RollupData, decode_rollup_data),
    (Target::Proof, decode_proof),
];

/// The whole oracle as one function over bytes: byte 0 selects the decoder, the rest is the wire
/// message. Returns normally when the property holds for this input and panics otherwise (a
/// decoder panic, or an accepted value that is not a fixed point of its own decoder).
pub fn fuzz_entry(data: &[u8]) {
    let Some((selector, wire)) = data.split_first() else {
        return;
    };
    let (_, decode) = DECODERS[usize::from(*selector) % DECODERS.len()];
    if let Some(reencoded) = decode(wire) {
        if usize::from(*selector) % DECODERS.len() == 0 {
            assert!(
                rawtx::Transaction::decode(wire).ok() == rawtx::Transaction::decode(reencoded.as_slice()).ok(),
                "accepted transaction bytes re-encode to a message that differs in a field value"
            );
        }
        match decode(&reencoded) {
            Some(again) => assert!(
                again == reencoded,
                "accepted value is not self-consistent: its re-encoding decodes to something else"
            ),
            None => panic!(
                "accepted value is not self-consistent: its re-encoding is rejected by the same decoder"
            ),
        }
    }
}

#[derive(Clone, Debug, Serialize, Deserialize)]
pub struct FuzzInput {
    data: HexBytes,
}

fn selector_of(target: Target) -> u8 {
    DECODERS.iter().position(|(t, _)| *t == target).unwrap_or(0) as u8
}

fn fuzz_input(tier: Tier) -> BoxedStrategy<FuzzInput> {
    prop_oneof![
        // structured: an honest encoding with 0..3 mutations, as in `core_decoders`
        6 => (case(tier), any::<u8>()).prop_map(|(case, other)| {
            let (encoded, _) = honest(&case);
            let (mutated, _) = mutation::mutate(&encoded, &case.mutations);
            // one in eight: hand the message to another type's decoder
            let selector = if other % 8 == 0 { other / 8 } else { selector_of(case.target) };
            let mut data = vec![selector];
            data.extend(mutated);
            FuzzInput { data: HexBytes(data) }
        }),
        // no structure
        1 => proptest::collection::vec(any::<u8>(), 0..120).prop_map(|data| FuzzInput { data: HexBytes(data) }),
    ]
    .boxed()
}

fn fuzz_case(input: &FuzzInput, ctx: &mut Ctx) -> CaseResult {
    let data = &input.data.0;
    if let Some((selector, wire)) = data.split_first() {
        let (target, _) = DECODERS[usize::from(*selector) % DECODERS.len()];
        ctx.label(format!("{target:?}"));
        let proto_ok = match target {
            Target::Transaction => rawtx::Transaction::decode(wire).is_ok(),
            Target::SequencerBlock => rawblock::SequencerBlock::decode(wire).is_ok(),
            Target::FilteredBlock => rawblock::FilteredSequencerBlock::decode(wire).is_ok(),
            Target::Metadata => rawblock::SubmittedMetadata::decode(wire).is_ok(),
            Target::RollupData => rawblock::SubmittedRollupData::decode(wire).is_ok(),
            Target::Proof => astria_core::generated::astria::primitive::v1::Proof::decode(wire).is_ok(),
        };
        ctx.set_nontrivial(proto_ok && !wire.is_empty());
    }
    match catch(|| fuzz_entry(data)) {
        Ok(()) => Ok(()),
        Err(panic) => {
            let failure = panic_failure(panic);
            if failure.message.contains("accepted value is not self-consistent") {
                vfail!("accepted-value-not-self-consistent", "{} (input {})", failure.message, hex::encode(&data[..data.len().min(300)]));
            }
            vfail!("decode-panic", "decoding {} bytes panicked: {} (input {})", data.len(), failure.message, hex::encode(&data[..data.len().min(300)]));
        }
    }
}

/// Honest encodings of every type (selector-prefixed): the libFuzzer starting corpus.
fn seed_corpus(seed: u64) -> Vec<Vec<u8>> {
    use proptest::{
        strategy::ValueTree as _,
        test_runner::{
            Config,
            RngAlgorithm,
            TestRng,
            TestRunner,
        },
    };
    let mut bytes = [0_u8; 32];
    bytes[..8].copy_from_slice(&seed.to_le_bytes());
    let mut runner = TestRunner::new_with_rng(Config::default(), TestRng::from_seed(RngAlgorithm::ChaCha, &bytes));
    let strategy = case(Tier::Thorough);
    let mut out = Vec::new();
    for _ in 0..240 {
        let Ok(tree) = strategy.new_tree(&mut runner) else {
            continue;
        };
        let case = tree.current();
        let (encoded, _) = honest(&case);
        let mut data = vec![selector_of(case.target)];
        data.extend(encoded);
        out.push(data);
    }
    out
}

const FUZZ_RULE: &str = "the same oracle as `core_decoders` as one function over bytes (byte 0 selects the \
    decoder): honest encodings with 0..3 field- or byte-level mutations (one in eight handed to another \
    type's decoder) and unstructured bytes. Non-trivial: the message parses as protobuf of the selected type";

fn libfuzzer_campaign(s: &mut Session) {
    let campaign = vcommon::libfuzzer::Campaign {
        target: "c17_decoders",
        seeds: seed_corpus(s.seed),
        max_len: 16_384,
        default_secs: 900,
        workers: 12,
    };
    let outcome = vcommon::libfuzzer::run(s.seed, &campaign);
    s.extra("libfuzzer_c17_decoders", serde_json::json!({
        "command": outcome.command,
        "unavailable": outcome.unavailable,
        "executions": outcome.executions,
        "coverage_edges": outcome.coverage_edges,
        "features": outcome.features,
        "corpus_files": outcome.corpus_files,
        "seeds_written": outcome.seeds_written,
        "crash_artifacts": outcome.crashes.len(),
        "timeouts_or_ooms_ignored": outcome.resource_events,
    }));
    if let Some(reason) = &outcome.unavailable {
        // the proptest tiers above remain the deciding step; say so instead of guessing
        eprintln!("[C17:libfuzzer] campaign not run: {reason}");
        s.assume(format!("the libFuzzer campaign of this run did not execute ({reason}); the proptest sub-checks decide alone"));
        return;
    }
    eprintln!(
        "[C17:libfuzzer] {} executions, {} edges, {} features, corpus {}, {} crash artifacts, {:.0}s",
        outcome.executions, outcome.coverage_edges, outcome.features, outcome.corpus_files, outcome.crashes.len(), outcome.wall_s
    );
    let mut samples = Vec::new();
    let mut confirmed = 0;
    for (path, bytes) in &outcome.crashes {
        let input = FuzzInput { data: HexBytes(bytes.clone()) };
        let mut ctx = Ctx::default();
        match fuzz_case(&input, &mut ctx) {
            Err(failure) => {
                confirmed += 1;
                if confirmed <= 3 {
                    s.report_case("fuzz_bytes", &input, failure);
                }
            }
            // an artifact that does not reproduce in-process is not a violation (resource event)
            Ok(()) => eprintln!("[C17:libfuzzer] artifact {} does not reproduce; ignored", path.display()),
        }
    }
    for seed_input in campaign.seeds.iter().take(2) {
        samples.push(serde_json::json!({"input_hex": hex::encode(&seed_input[..seed_input.len().min(160)]), "kind": "starting corpus"}));
    }
    s.add_external(
        "libfuzzer_c17_decoders",
        "coverage-guided libFuzzer campaign (fork mode, no sanitizer, stable toolchain) over `vlight::c17::fuzz_entry`, \
         started from 240 honest selector-prefixed encodings; the oracle is inside the target. Counts: engine \
         executions; non-trivial = inputs the engine kept because they reached new coverage (final corpus size)",
        outcome.executions,
        outcome.corpus_files,
        samples,
        outcome.wall_s,
    );
}

pub fn run(args: &[String]) -> ! {
    let mut s = Session::from_args("C17", "exploration", args);
    s.assume("protobuf field order is canonical after one decode/encode pass: self-consistency is checked on the re-encoding of an accepted value (decode(encode(v)) == v and its checks pass again)");
    s.run_prop(Prop {
        name: "core_decoders",
        rule: "honest Transaction (5 action kinds, amounts near u128::MAX), SequencerBlock (0..5 payloads \
               over 4 rollups, 0..2 deposits), FilteredSequencerBlock, SubmittedMetadata, \
               SubmittedRollupData and merkle Proof encodings x 0..3 mutations at the protobuf field \
               level (delete / duplicate a field, varints to 0,1,2,2^31,2^32,2^63,2^64-1,usize::MAX/2(+1), \
               lying length prefixes, truncated nested messages, replaced bytes) or byte level (truncate, \
               bit flip, splice, append), plus raw random bytes. Oracle: Err or Ok, never a panic; Ok(v) \
               re-encodes to a fixed point of the decoder (signature / proofs re-verified). Non-trivial: \
               a mutated input that still parses as protobuf (reaches the type's validation)",
        cases_quick: 400_000,
        cases_thorough: 2_000_000,
        shards: 12,
        min_nontrivial: 0.2,
        max_shrink_iters: 2000,
        strategy: Box::new(case),
        test: Box::new(run_case),
    });
    s.run_prop(Prop {
        name: "fuzz_bytes",
        rule: FUZZ_RULE,
        cases_quick: 100_000,
        cases_thorough: 600_000,
        shards: 12,
        min_nontrivial: 0.2,
        max_shrink_iters: 2000,
        strategy: Box::new(fuzz_input),
        test: Box::new(fuzz_case),
    });
    if s.tier == Tier::Thorough && !s.is_replay() && std::env::var("VERIF_NO_LIBFUZZER").is_err() {
        libfuzzer_campaign(&mut s);
    }
    s.finish()
}
