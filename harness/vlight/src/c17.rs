//! C17 (astria-core part) — untrusted wire data never panics a decoder; accepted values are
//! self-consistent.
//!
//! Valid encodings of every wire type named by the property are produced from generated values,
//! mutated at the protobuf-field level (and at the byte level), and pushed through the public
//! decoders. Oracle: the outcome is `Err` or `Ok(v)`, never a panic; `Ok(v)` re-encodes to bytes
//! that decode again to an equal value (which re-runs the type's own checks: signature, Merkle
//! proofs against the header roots).

use astria_core::{
    crypto::SigningKey,
    generated::astria::{
        protocol::transaction::v1 as rawtx,
        sequencerblock::v1 as rawblock,
    },
    primitive::v1::{
        Address,
        RollupId,
    },
    protocol::{
        test_utils::ConfigureSequencerBlock,
        transaction::v1::{
            action::{
                BridgeLock,
                BridgeUnlock,
                RollupDataSubmission,
                Transfer,
                ValidatorUpdate,
            },
            Action,
            Transaction,
            TransactionBody,
        },
    },
    sequencerblock::v1::{
        block::{
            Deposit,
            FilteredSequencerBlock,
        },
        SequencerBlock,
        SubmittedMetadata,
        SubmittedRollupData,
    },
    Protobuf as _,
};
use prost::Message as _;
use proptest::prelude::*;
use serde::{
    Deserialize,
    Serialize,
};
use vcommon::{
    catch,
    gen::HexBytes,
    panic_failure,
    vensure,
    vfail,
    wire::mutation::{
        self,
        Mutation,
    },
    CaseResult,
    Ctx,
    Prop,
    Session,
    Tier,
};

#[derive(Clone, Copy, Debug, Serialize, Deserialize, PartialEq, Eq)]
pub enum Target {
    Transaction,
    SequencerBlock,
    FilteredBlock,
    Metadata,
    RollupData,
    Proof,
}

#[derive(Clone, Debug, Serialize, Deserialize)]
pub struct Case {
    target: Target,
    /// (rollup selector, payload) sequenced in the block
    data: Vec<(u8, HexBytes)>,
    deposits: u8,
    height: u8,
    /// action kinds of the transaction
    actions: Vec<u8>,
    mutations: Vec<Mutation>,
    /// decode these raw bytes as well (no structure at all)
    raw: Option<HexBytes>,
}

fn case(_tier: Tier) -> BoxedStrategy<Case> {
    (
        prop_oneof![
            Just(Target::Transaction),
            Just(Target::SequencerBlock),
            Just(Target::FilteredBlock),
            Just(Target::Metadata),
            Just(Target::RollupData),
            Just(Target::Proof),
        ],
        proptest::collection::vec((0_u8..4, vcommon::gen::hex_serde_bytes(24)), 0..6),
        0_u8..3,
        1_u8..5,
        proptest::collection::vec(0_u8..5, 1..4),
        proptest::collection::vec(mutation::strategy(), 0..=3),
        proptest::option::weighted(0.1, vcommon::gen::hex_serde_bytes(80)),
    )
        .prop_map(|(target, data, deposits, height, actions, mutations, raw)| Case {
            target,
            data,
            deposits,
            height,
            actions,
            mutations,
            raw,
        })
        .boxed()
}

fn key() -> SigningKey {
    SigningKey::from([9; 32])
}

fn address(byte: u8) -> Address {
    Address::builder().prefix("astria").array([byte; 20]).try_build().unwrap()
}

fn rollup(sel: u8) -> RollupId {
    RollupId::from_unhashed_bytes([b'r', sel])
}

fn block(case: &Case) -> SequencerBlock {
    let deposits = (0..case.deposits)
        .map(|i| Deposit {
            bridge_address: address(40 + i),
            rollup_id: rollup(i),
            amount: 1000 + u128::from(i),
            asset: "nria".parse().unwrap(),
            destination_chain_address: "dest".to_string(),
            source_transaction_id: astria_core::primitive::v1::TransactionId::new([i; 32]),
            source_action_index: u64::from(i),
        })
        .collect();
    ConfigureSequencerBlock {
        block_hash: Some(astria_core::sequencerblock::v1::block::Hash::new([case.height; 32])),
        chain_id: Some("verif".to_string()),
        height: u32::from(case.height),
        signing_key: Some(key()),
        sequence_data: case.data.iter().map(|(r, d)| (rollup(*r), d.0.clone())).collect(),
        deposits,
        ..Default::default()
    }
    .make()
}

fn transaction(case: &Case) -> Transaction {
    let actions: Vec<Action> = case
        .actions
        .iter()
        .enumerate()
        .map(|(i, kind)| match kind {
            0 => Action::Transfer(Transfer {
                to: address(i as u8),
                amount: u128::MAX - i as u128,
                asset: "nria".parse().unwrap(),
                fee_asset: "nria".parse().unwrap(),
            }),
            1 => Action::RollupDataSubmission(RollupDataSubmission {
                rollup_id: rollup(i as u8),
                data: vec![i as u8; 5 + i].into(),
                fee_asset: "transfer/channel-0/utia".parse().unwrap(),
            }),
            2 => Action::BridgeLock(BridgeLock {
                to: address(7),
                amount: 5,
                asset: "nria".parse().unwrap(),
                fee_asset: "nria".parse().unwrap(),
                destination_chain_address: "rollup-address".to_string(),
            }),
            3 => Action::BridgeUnlock(BridgeUnlock {
                to: address(8),
                amount: 6,
                fee_asset: "nria".parse().unwrap(),
                bridge_address: address(9),
                memo: "memo".to_string(),
                rollup_block_number: 4,
                rollup_withdrawal_event_id: "event".to_string(),
            }),
            _ => Action::ValidatorUpdate(ValidatorUpdate {
                power: 10,
                verification_key: key().verification_key(),
                name: "validator".parse().unwrap(),
            }),
        })
        .collect();
    TransactionBody::builder()
        .actions(actions)
        .chain_id("verif")
        .nonce(3)
        .try_build()
        .expect("all generated action kinds are bundleable general")
        .sign(&key())
}

/// decode(bytes): `None` = rejected, `Some(reencoded)` = accepted value re-encoded
type Decoder = fn(&[u8]) -> Option<Vec<u8>>;

fn decode_transaction(bytes: &[u8]) -> Option<Vec<u8>> {
    let raw = rawtx::Transaction::decode(bytes).ok()?;
    let tx = Transaction::try_from_raw(raw).ok()?;
    // the stated check: the signature verifies over the body
    let body = tx.to_raw().body.clone().unwrap_or_default();
    assert!(
        tx.verification_key().verify(&tx.signature(), &body.value).is_ok(),
        "accepted transaction whose signature does not verify"
    );
    Some(tx.into_raw().encode_to_vec())
}

fn decode_block(bytes: &[u8]) -> Option<Vec<u8>> {
    let raw = rawblock::SequencerBlock::decode(bytes).ok()?;
    let block = SequencerBlock::try_from_raw(raw).ok()?;
    Some(block.into_raw().encode_to_vec())
}

fn decode_filtered(bytes: &[u8]) -> Option<Vec<u8>> {
    let raw = rawblock::FilteredSequencerBlock::decode(bytes).ok()?;
    let block = FilteredSequencerBlock::try_from_raw(raw).ok()?;
    Some(block.into_raw().encode_to_vec())
}

fn decode_metadata(bytes: &[u8]) -> Option<Vec<u8>> {
    let raw = rawblock::SubmittedMetadata::decode(bytes).ok()?;
    let value = SubmittedMetadata::try_from_raw(raw).ok()?;
    Some(value.into_raw().encode_to_vec())
}

fn decode_rollup_data(bytes: &[u8]) -> Option<Vec<u8>> {
    let raw = rawblock::SubmittedRollupData::decode(bytes).ok()?;
    let value = SubmittedRollupData::try_from_raw(raw).ok()?;
    Some(value.into_raw().encode_to_vec())
}

fn decode_proof(bytes: &[u8]) -> Option<Vec<u8>> {
    let raw = astria_core::generated::astria::primitive::v1::Proof::decode(bytes).ok()?;
    let proof = astria_merkle::Proof::try_from_raw(raw).ok()?;
    // verification of an accepted proof is total
    let _ = proof.verify(b"leaf", [7; 32]);
    Some(proof.into_raw().encode_to_vec())
}

fn honest(case: &Case) -> (Vec<u8>, Decoder) {
    match case.target {
        Target::Transaction => (transaction(case).into_raw().encode_to_vec(), decode_transaction),
        Target::SequencerBlock => (block(case).into_raw().encode_to_vec(), decode_block),
        Target::FilteredBlock => {
            let block = block(case);
            let wanted: Vec<RollupId> = (0..2).map(rollup).collect();
            (block.into_filtered_block(wanted).into_raw().encode_to_vec(), decode_filtered)
        }
        Target::Metadata => {
            let (metadata, _) = block(case).split_for_celestia();
            (metadata.into_raw().encode_to_vec(), decode_metadata)
        }
        Target::RollupData => {
            let (_, mut rollup_data) = block(case).split_for_celestia();
            match rollup_data.pop() {
                Some(data) => (data.into_raw().encode_to_vec(), decode_rollup_data),
                None => (Vec::new(), decode_rollup_data),
            }
        }
        Target::Proof => {
            let tree = astria_merkle::Tree::from_leaves(case.data.iter().map(|(_, d)| d.0.clone()).chain([vec![1]]));
            let proof = tree.construct_proof(0).expect("tree has a leaf");
            (proof.into_raw().encode_to_vec(), decode_proof)
        }
    }
}

fn run_case(case: &Case, ctx: &mut Ctx) -> CaseResult {
    let (encoded, decode) = honest(case);
    ctx.label(format!("{:?}", case.target));
    // the honest encoding is accepted and is a fixed point
    match catch(|| decode(&encoded)) {
        Ok(Some(again)) => vensure!(
            catch(|| decode(&again)).ok().flatten().as_deref() == Some(again.as_slice()),
            "reencoding-not-stable",
            "{:?}: re-encoding an accepted honest value changes it",
            case.target
        ),
        Ok(None) if encoded.is_empty() => {}
        Ok(None) => vfail!("honest-encoding-rejected", "{:?}: the decoder rejects an honest encoding", case.target),
        Err(panic) => vfail!("decode-panic", "{:?}: decoding an honest encoding panicked: {}", case.target, panic_failure(panic).message),
    }
    let mut inputs: Vec<Vec<u8>> = Vec::new();
    let (mutated, applied) = mutation::mutate(&encoded, &case.mutations);
    if applied > 0 {
        inputs.push(mutated);
    }
    if let Some(raw) = &case.raw {
        inputs.push(raw.0.clone());
    }
    for input in inputs {
        let proto_ok = match case.target {
            Target::Transaction => rawtx::Transaction::decode(input.as_slice()).is_ok(),
            Target::SequencerBlock => rawblock::SequencerBlock::decode(input.as_slice()).is_ok(),
            Target::FilteredBlock => rawblock::FilteredSequencerBlock::decode(input.as_slice()).is_ok(),
            Target::Metadata => rawblock::SubmittedMetadata::decode(input.as_slice()).is_ok(),
            Target::RollupData => rawblock::SubmittedRollupData::decode(input.as_slice()).is_ok(),
            Target::Proof => astria_core::generated::astria::primitive::v1::Proof::decode(input.as_slice()).is_ok(),
        };
        if proto_ok {
            ctx.nontrivial();
            ctx.label("reaches-validation");
        } else {
            ctx.label("rejected-by-protobuf");
        }
        match catch(|| decode(&input)) {
            Err(panic) => {
                let f = panic_failure(panic);
                vfail!(
                    "decode-panic",
                    "{:?}: decoding {} mutated bytes panicked: {} (input {})",
                    case.target,
                    input.len(),
                    f.message,
                    hex::encode(&input[..input.len().min(200)])
                );
            }
            Ok(None) => ctx.label("rejected"),
            Ok(Some(reencoded)) => {
                ctx.label("accepted-after-mutation");
                match catch(|| decode(&reencoded)) {
                    Ok(Some(again)) => vensure!(
                        again == reencoded,
                        "accepted-value-not-self-consistent",
                        "{:?}: an accepted mutated value re-encodes to something that decodes differently",
                        case.target
                    ),
                    Ok(None) => vfail!(
                        "accepted-value-not-self-consistent",
                        "{:?}: the re-encoding of an accepted value is rejected by the same decoder",
                        case.target
                    ),
                    Err(panic) => vfail!("decode-panic", "{:?}: re-decoding panicked: {}", case.target, panic_failure(panic).message),
                }
            }
        }
    }
    Ok(())
}

pub fn run(args: &[String]) -> ! {
    let mut s = Session::from_args("C17", "exploration", args);
    s.assume("protobuf field order is canonical after one decode/encode pass: self-consistency is checked on the re-encoding of an accepted value (decode(encode(v)) == v and its checks pass again)");
    s.run_prop(Prop {
        name: "core_decoders",
        rule: "honest Transaction (5 action kinds, amounts near u128::MAX), SequencerBlock (0..5 payloads \
               over 4 rollups, 0..2 deposits), FilteredSequencerBlock, SubmittedMetadata, \
               SubmittedRollupData and merkle Proof encodings x 0..3 mutations at the protobuf field \
               level (delete / duplicate a field, varints to 0,1,2,2^31,2^32,2^63,2^64-1,usize::MAX/2(+1), \
               lying length prefixes, truncated nested messages, replaced bytes) or byte level (truncate, \
               bit flip, splice, append), plus raw random bytes. Oracle: Err or Ok, never a panic; Ok(v) \
               re-encodes to a fixed point of the decoder (signature / proofs re-verified). Non-trivial: \
               a mutated input that still parses as protobuf (reaches the type's validation)",
        cases_quick: 400_000,
        cases_thorough: 2_000_000,
        shards: 12,
        min_nontrivial: 0.2,
        max_shrink_iters: 2000,
        strategy: Box::new(case),
        test: Box::new(run_case),
    });
    s.finish()
}
