//! Checks that only need `astria-merkle` and `astria-core`: C08, and the core-decoder part of C17.

use vlight::{
    c08,
    c17,
};

fn main() {
    let (id, args) = vcommon::split_args();
    match id.as_str() {
        "C08" => c08::run(&args),
        "C17" => c17::run(&args),
        other => {
            eprintln!("vlight does not host property {other}");
            std::process::exit(2);
        }
    }
}
