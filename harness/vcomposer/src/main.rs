fn main() {
    let (id, _args) = vcommon::split_args();
    eprintln!("vcomposer does not host property {id} yet");
    std::process::exit(2);
}
