//! Checks against `astria-composer` (feature `verif`): C16.

mod c16;

fn main() {
    let (id, args) = vcommon::split_args();
    match id.as_str() {
        "C16" => c16::run(&args),
        other => {
            eprintln!("vcomposer does not host property {other}");
            std::process::exit(2);
        }
    }
}
