//! C16 — Composer bundles each accepted transaction once, in order, within the size limit.
//!
//! Code under test: the real `BundleFactory` of `astria-composer`
//! (`executor/bundle_factory/mod.rs`), reached through the `verif` facade
//! (`astria_composer::verif::VerifBundleFactory`), driven exactly the way
//! `Executor::run_until_stopped` drives it: `try_push` for every received rollup transaction,
//! `next_finished().pop()` when a finished bundle is available, `pop_now()` when the block timer
//! fires, and a `pop_now()` loop until an empty bundle comes back at shut-down.
//!
//! Oracles (all in this file, none of them calls composer code):
//!
//! * a reference queue model (`Model`) that predicts the outcome of every call,
//! * model-free step invariants: refusal iff (alone too large) or (does not fit the observed
//!   current bundle and the observed finished queue is at capacity); a refusal leaves the
//!   observable state (current bundle, finished queue) byte-identical,
//! * history invariants: every emitted bundle's recomputed size is within the maximum; the
//!   concatenation of everything emitted (pops, then the shut-down drain) equals the accepted
//!   pushes in acceptance order, modulo the documented `fee_asset -> ibc/<sha256>` rewrite.
//!
//! "Size" is what the composer documents for `max_bytes_per_bundle` (`config.rs`: "the sum of the
//! sizes of all the sequence actions", "not including signature, public key, nonce"): the sum of
//! the protobuf encodings of the `RollupDataSubmission`s. It is recomputed here by really encoding
//! every emitted action with prost. The size of the encoded `TransactionBody` the executor signs
//! is larger (per-action framing, chain id, nonce); that excess is measured and reported in the
//! evidence (`tx_body_*` keys) but is not part of the verdict.

use std::{
    collections::VecDeque,
    sync::atomic::{
        AtomicBool,
        AtomicU64,
        Ordering,
    },
};

use astria_composer::verif::{
    PushRefusal,
    VerifBundle,
    VerifBundleFactory,
};
use astria_core::{
    generated::astria::{
        primitive::v1 as raw_primitive,
        protocol::transaction::v1 as raw,
    },
    primitive::v1::{
        asset::Denom,
        RollupId,
    },
    protocol::transaction::v1::action::RollupDataSubmission,
    Protobuf as _,
};
use prost::Message as _;
use proptest::prelude::*;
use serde::{
    Deserialize,
    Serialize,
};
use sha2::{
    Digest as _,
    Sha256,
};
use vcommon::{
    gen::pick_index,
    vensure,
    CaseResult,
    Ctx,
    Failure,
    Prop,
    Session,
    Tier,
};

// ---------------------------------------------------------------------------------------------
// case type
// ---------------------------------------------------------------------------------------------

/// Requested encoded size of a pushed rollup transaction, relative to the configured maximum `M`
/// and to the space left in the current bundle (taken from the reference model).
#[derive(Clone, Debug, Serialize, Deserialize)]
pub enum SizeClass {
    /// the smallest possible entries: that many data bytes (0..=12)
    Tiny(u8),
    /// between the smallest entry and `M` (selector)
    Mid(u16),
    /// exactly the space left in the current bundle (nearest representable size below it)
    FitsExactly,
    /// one byte more than the space left in the current bundle (nearest representable above)
    FitsPlusOne,
    MaxMinusOne,
    Max,
    MaxPlusOne,
    /// `M + 2 ..` (selector over 3000 bytes)
    Huge(u16),
}

#[derive(Clone, Debug, Serialize, Deserialize)]
pub enum Op {
    /// a rollup transaction arrives on the executor's channel
    Push {
        size: SizeClass,
        rollup: u16,
        fee_asset: u16,
        fill: u8,
    },
    /// the executor takes the next finished bundle (`next_finished().pop()`)
    PopFinished,
    /// the block timer fires (`pop_now()`)
    PopNow,
}

#[derive(Clone, Debug, Serialize, Deserialize)]
pub struct Case {
    /// `max_bytes_per_bundle`
    max_size: usize,
    /// `bundle_queue_capacity`
    capacity: usize,
    ops: Vec<Op>,
}

const ROLLUP_POOL: [[u8; 32]; 3] = [[0x00; 32], [0x01; 32], [0xff; 32]];

/// Fee assets as they arrive from collectors: trace-prefixed of different lengths and one that is
/// already ibc-prefixed. The factory rewrites all of them to `ibc/<sha256 of the denom>`.
const FEE_ASSET_POOL: [&str; 4] = [
    "nria",
    "transfer/channel-0/utia",
    "ibc/0c0f3b6a8d1e5f7a9b2c4d6e8f0a1b3c5d7e9f1a2b4c6d8e0f1a3b5c7d9e0f2a",
    "transfer/channel-1/transfer/channel-22/a-rather-long-base-denomination",
];

/// Largest data payload the interpreter materialises (keeps hand-written replay files with absurd
/// `max_size` values from allocating gigabytes; generated cases stay far below).
const DATA_CAP: usize = 1 << 17;

// ---------------------------------------------------------------------------------------------
// reference: encoded length of one entry, the rewrite, the queue model
// ---------------------------------------------------------------------------------------------

fn varint_len(mut v: usize) -> usize {
    let mut n = 1;
    while v >= 0x80 {
        v >>= 7;
        n += 1;
    }
    n
}

/// Bytes every entry costs regardless of its payload: field 1 (`rollup_id` message: tag + len +
/// (tag + len + 32 bytes)) and field 3 (`fee_asset`: tag + len + 68 characters `ibc/<64 hex>`).
const ENTRY_BASE: usize = (1 + 1 + (1 + 1 + 32)) + (1 + 1 + 68);

/// Protobuf length of a `RollupDataSubmission` with `d` data bytes after the fee asset rewrite.
fn ref_entry_len(d: usize) -> usize {
    if d == 0 {
        ENTRY_BASE // proto3: empty bytes field is not encoded
    } else {
        ENTRY_BASE + 1 + varint_len(d) + d
    }
}

/// Largest payload whose entry is at most `target` bytes (None if even the empty one is larger).
fn data_len_at_most(target: usize) -> Option<usize> {
    if target < ENTRY_BASE {
        return None;
    }
    let mut d = target.saturating_sub(ENTRY_BASE + 12).min(DATA_CAP);
    if ref_entry_len(d) > target {
        d = 0;
    }
    while d < DATA_CAP && ref_entry_len(d + 1) <= target {
        d += 1;
    }
    Some(d)
}

/// Smallest payload whose entry is at least `target` bytes.
fn data_len_at_least(target: usize) -> usize {
    match data_len_at_most(target) {
        None => 0,
        Some(d) if ref_entry_len(d) >= target => d,
        Some(d) => (d + 1).min(DATA_CAP),
    }
}

/// The documented rewrite, computed independently: trace-prefixed denoms become
/// `ibc/<lower-hex sha256 of the denom string>`, ibc-prefixed ones stay as they are.
fn ref_ibc_prefixed(denom: &str) -> String {
    if denom.starts_with("ibc/") {
        denom.to_string()
    } else {
        format!("ibc/{}", hex::encode(Sha256::digest(denom.as_bytes())))
    }
}

/// One pushed transaction as the harness expects it to be emitted.
#[derive(Clone)]
struct Item {
    expected: raw::RollupDataSubmission,
    /// recomputed encoded size (really encoded, not `encoded_len`)
    size: usize,
}

#[derive(Clone, Copy, Debug, PartialEq, Eq)]
enum Predicted {
    Accepted { flushed: bool },
    RefusedTooLarge,
    RefusedQueueFull,
}

/// Reference model: a bundle under construction plus a bounded FIFO of finished bundles. Holds
/// indices into the list of pushed items.
struct Model {
    max: usize,
    cap: usize,
    curr: Vec<usize>,
    curr_size: usize,
    finished: VecDeque<Vec<usize>>,
}

impl Model {
    fn new(max: usize, cap: usize) -> Self {
        Self {
            max,
            cap,
            curr: Vec::new(),
            curr_size: 0,
            finished: VecDeque::new(),
        }
    }

    fn remaining(&self) -> usize {
        self.max.saturating_sub(self.curr_size)
    }

    fn push(&mut self, id: usize, size: usize) -> Predicted {
        if size > self.max {
            return Predicted::RefusedTooLarge;
        }
        if self.curr_size + size <= self.max {
            self.curr.push(id);
            self.curr_size += size;
            return Predicted::Accepted {
                flushed: false,
            };
        }
        if self.finished.len() >= self.cap {
            return Predicted::RefusedQueueFull;
        }
        let done = std::mem::take(&mut self.curr);
        self.finished.push_back(done);
        self.curr.push(id);
        self.curr_size = size;
        Predicted::Accepted {
            flushed: true,
        }
    }

    fn pop_finished(&mut self) -> Option<Vec<usize>> {
        self.finished.pop_front()
    }

    fn pop_now(&mut self) -> Vec<usize> {
        if let Some(front) = self.finished.pop_front() {
            return front;
        }
        self.curr_size = 0;
        std::mem::take(&mut self.curr)
    }

    fn is_full(&self) -> bool {
        self.finished.len() >= self.cap
    }
}

// ---------------------------------------------------------------------------------------------
// observation of the real factory
// ---------------------------------------------------------------------------------------------

type Contents = Vec<raw::RollupDataSubmission>;

/// The actions of a bundle as raw protobuf values (these implement `PartialEq`).
fn contents(bundle: &VerifBundle) -> Result<Contents, Failure> {
    bundle
        .actions()
        .iter()
        .map(|action| {
            action
                .as_rollup_data_submission()
                .map(|a| a.to_raw())
                .ok_or_else(|| {
                    Failure::new(
                        "foreign-action-in-bundle",
                        format!("bundle contains an action that is no rollup data submission: {action:?}"),
                    )
                })
        })
        .collect()
}

fn encoded_size(contents: &Contents) -> usize {
    contents.iter().map(|a| a.encode_to_vec().len()).sum()
}

#[derive(PartialEq)]
struct Observed {
    curr: Contents,
    finished: Vec<Contents>,
}

fn observe(factory: &VerifBundleFactory) -> Result<Observed, Failure> {
    Ok(Observed {
        curr: contents(&factory.curr_bundle())?,
        finished: factory
            .finished()
            .iter()
            .map(contents)
            .collect::<Result<_, _>>()?,
    })
}

fn describe(contents: &Contents, items: &[Item]) -> String {
    let ids: Vec<String> = contents
        .iter()
        .map(|c| match items.iter().position(|i| i.expected == *c) {
            Some(id) => format!("#{id}"),
            None => "?".to_string(),
        })
        .collect();
    format!("[{}]", ids.join(","))
}

fn describe_ids(ids: &[usize]) -> String {
    let ids: Vec<String> = ids.iter().map(|id| format!("#{id}")).collect();
    format!("[{}]", ids.join(","))
}

// evidence-only observations about the transaction body the executor signs
static TX_BODY_MAX_EXCESS: AtomicU64 = AtomicU64::new(0);
static TX_BODY_OVER_MAX: AtomicU64 = AtomicU64::new(0);
static BUNDLES_EMITTED: AtomicU64 = AtomicU64::new(0);
/// `--replay`: print what every emitted bundle measures
static VERBOSE: AtomicBool = AtomicBool::new(false);

// ---------------------------------------------------------------------------------------------
// interpreter
// ---------------------------------------------------------------------------------------------

struct Run<'a> {
    case: &'a Case,
    factory: VerifBundleFactory,
    model: Model,
    /// false once a call's outcome differed from the model's prediction (first difference is kept
    /// in `model_failure`; model-free invariants keep being checked so that the most specific
    /// signature wins)
    model_in_sync: bool,
    model_failure: Option<Failure>,
    items: Vec<Item>,
    /// ids of accepted pushes in acceptance order
    accepted: Vec<usize>,
    /// everything emitted so far, bundle by bundle
    emitted: Vec<Contents>,
    flushes: usize,
    refusals: usize,
    max_fill_permille: usize,
}

impl Run<'_> {
    fn model_mismatch(&mut self, signature: &str, message: String) {
        if self.model_in_sync {
            self.model_in_sync = false;
            self.model_failure = Some(Failure::new(signature, message));
        }
    }

    fn materialise(&mut self, size: &SizeClass, rollup: u16, fee_asset: u16, fill: u8, ctx: &mut Ctx)
        -> (RollupDataSubmission, Item)
    {
        let max = self.case.max_size;
        let remaining = self.model.remaining();
        let (class, data_len) = match size {
            SizeClass::Tiny(k) => ("tiny", usize::from(*k).min(12)),
            SizeClass::Mid(sel) => {
                let span = max.saturating_sub(ENTRY_BASE).saturating_add(1);
                let target = ENTRY_BASE.saturating_add(pick_index(*sel, span));
                ("mid", data_len_at_most(target).unwrap_or(0))
            }
            SizeClass::FitsExactly => ("fits-exactly", data_len_at_most(remaining).unwrap_or(0)),
            SizeClass::FitsPlusOne => ("fits+1", data_len_at_least(remaining.saturating_add(1))),
            SizeClass::MaxMinusOne => ("max-1", data_len_at_most(max.saturating_sub(1)).unwrap_or(0)),
            SizeClass::Max => ("max", data_len_at_most(max).unwrap_or(0)),
            SizeClass::MaxPlusOne => ("max+1", data_len_at_least(max.saturating_add(1))),
            SizeClass::Huge(sel) => (
                "huge",
                data_len_at_least(max.saturating_add(2).saturating_add(pick_index(*sel, 3000))),
            ),
        };
        ctx.label(format!("push:{class}"));
        let id = self.items.len();
        // payload: starts with the push number, so every non-empty payload is unique and a
        // duplicate, a loss or a swap is visible (empty payloads can only differ in rollup / asset)
        let mut data = vec![fill.wrapping_add(id as u8); data_len];
        for (slot, byte) in data.iter_mut().zip((id as u32).to_le_bytes()) {
            *slot = byte;
        }
        let rollup_bytes = ROLLUP_POOL[pick_index(rollup, ROLLUP_POOL.len())];
        let denom_text = FEE_ASSET_POOL[pick_index(fee_asset, FEE_ASSET_POOL.len())];
        let denom: Denom = denom_text.parse().expect("pool entries are valid denoms");
        let action = RollupDataSubmission {
            rollup_id: RollupId::new(rollup_bytes),
            data: data.clone().into(),
            fee_asset: denom,
        };
        let expected = raw::RollupDataSubmission {
            rollup_id: Some(raw_primitive::RollupId {
                inner: rollup_bytes.to_vec().into(),
            }),
            data: data.into(),
            fee_asset: ref_ibc_prefixed(denom_text),
        };
        let size = expected.encode_to_vec().len();
        (action, Item { expected, size })
    }

    fn push(&mut self, size: &SizeClass, rollup: u16, fee_asset: u16, fill: u8, ctx: &mut Ctx) -> CaseResult {
        let max = self.case.max_size;
        let cap = self.case.capacity;
        let (action, item) = self.materialise(size, rollup, fee_asset, fill, ctx);
        vensure!(
            item.size == ref_entry_len(item.expected.data.len()),
            "harness-reference-broken",
            "entry with {} data bytes encodes to {} bytes, the harness formula says {}",
            item.expected.data.len(),
            item.size,
            ref_entry_len(item.expected.data.len())
        );
        let id = self.items.len();
        let size = item.size;
        self.items.push(item);

        let before = observe(&self.factory)?;
        let before_curr_size = encoded_size(&before.curr);
        let outcome = self.factory.try_push(action);
        let after = observe(&self.factory)?;

        // (1) a refused transaction leaves already accepted ones untouched
        if outcome.is_err() {
            vensure!(
                before == after,
                "refusal-changed-state",
                "push #{id} ({size} bytes, max {max}, capacity {cap}) was refused ({:?}) but the state \
                 changed: current {} -> {}, finished {} -> {} bundles",
                outcome,
                describe(&before.curr, &self.items),
                describe(&after.curr, &self.items),
                before.finished.len(),
                after.finished.len()
            );
        }

        // (2) refusal iff alone too large, or does not fit the current bundle and the queue is full
        let alone_too_large = size > max;
        let fits = before_curr_size.saturating_add(size) <= max;
        let queue_full = before.finished.len() >= cap;
        let must_refuse = alone_too_large || (!fits && queue_full);
        match &outcome {
            Err(refusal) => {
                vensure!(
                    must_refuse,
                    "refused-without-cause",
                    "push #{id} of {size} bytes refused ({refusal:?}) although max is {max}, the current \
                     bundle holds {before_curr_size} bytes and the finished queue holds {} of {cap}",
                    before.finished.len()
                );
                self.refusals += 1;
                match refusal {
                    PushRefusal::TooLarge { .. } => ctx.label("refused:too-large"),
                    PushRefusal::FinishedQueueFull { .. } => ctx.label("refused:queue-full"),
                }
                if alone_too_large != matches!(refusal, PushRefusal::TooLarge { .. }) {
                    ctx.label("refused:reason-differs-from-model");
                }
            }
            Ok(()) => {
                vensure!(
                    !alone_too_large,
                    "accepted-oversized",
                    "push #{id} of {size} bytes accepted although max is {max}"
                );
                vensure!(
                    !must_refuse,
                    "accepted-over-full-queue",
                    "push #{id} of {size} bytes accepted although it does not fit the current bundle \
                     ({before_curr_size} of {max} bytes used) and the finished queue holds {} of {cap}",
                    before.finished.len()
                );
                self.accepted.push(id);
                if after.finished.len() > before.finished.len() {
                    self.flushes += 1;
                    ctx.label("flush");
                }
                if fits && before_curr_size + size == max {
                    ctx.label("accepted:filled-to-the-byte");
                }
            }
        }

        // (3) the model's prediction of this call
        let predicted = self.model.push(id, size);
        let agrees = matches!(
            (&outcome, predicted),
            (Ok(()), Predicted::Accepted { .. })
                | (Err(_), Predicted::RefusedTooLarge | Predicted::RefusedQueueFull)
        );
        if !agrees {
            self.model_mismatch(
                "push-outcome-differs-from-model",
                format!(
                    "push #{id} of {size} bytes (max {max}, capacity {cap}): factory said {outcome:?}, \
                     model predicted {predicted:?}"
                ),
            );
        } else if self.model_in_sync {
            if let Predicted::Accepted { flushed } = predicted {
                let really_flushed = after.finished.len() > before.finished.len();
                if flushed != really_flushed {
                    self.model_mismatch(
                        "flush-differs-from-model",
                        format!(
                            "push #{id} of {size} bytes (max {max}): model flushed = {flushed}, \
                             factory flushed = {really_flushed}"
                        ),
                    );
                }
            }
        }
        Ok(())
    }

    /// A bundle left the factory; the executor submits it unless it is empty.
    fn emit(&mut self, how: &str, bundle: &VerifBundle, predicted: Option<&Vec<usize>>, ctx: &mut Ctx) -> CaseResult {
        let max = self.case.max_size;
        let inside = contents(bundle)?;
        // what the executor really sends: the actions of the transaction body built from it
        let sent: Contents = if bundle.is_empty() {
            Vec::new()
        } else {
            let body = bundle.to_transaction_body(7, "c16");
            let sent: Contents = body
                .actions()
                .iter()
                .filter_map(|a| a.as_rollup_data_submission().map(|a| a.to_raw()))
                .collect();
            vensure!(
                sent.len() == body.actions().len(),
                "foreign-action-in-bundle",
                "transaction body contains an action that is no rollup data submission"
            );
            let body_len = body.to_raw().encoded_len();
            let sum = encoded_size(&sent);
            TX_BODY_MAX_EXCESS.fetch_max(body_len.saturating_sub(sum) as u64, Ordering::Relaxed);
            if VERBOSE.load(Ordering::Relaxed) {
                eprintln!(
                    "[C16] {how}: bundle {} = {sum} bytes of rollup data submissions (max {max}); the \
                     TransactionBody built from it encodes to {body_len} bytes",
                    describe(&sent, &self.items)
                );
            }
            BUNDLES_EMITTED.fetch_add(1, Ordering::Relaxed);
            if body_len > max {
                TX_BODY_OVER_MAX.fetch_add(1, Ordering::Relaxed);
                ctx.label("observed:tx-body-larger-than-max");
            }
            sent
        };
        let size = encoded_size(&sent);
        vensure!(
            size <= max,
            "bundle-over-limit",
            "{how} returned a bundle of {} actions whose encodings sum to {size} bytes, max is {max}",
            sent.len()
        );
        if max > 0 {
            self.max_fill_permille = self.max_fill_permille.max(size * 1000 / max);
        }
        if let Some(predicted) = predicted {
            let expected: Contents = predicted
                .iter()
                .map(|id| self.items[*id].expected.clone())
                .collect();
            if expected != inside {
                let items = &self.items;
                let message = format!(
                    "{how} returned {} but the model predicted {}",
                    describe(&inside, items),
                    describe_ids(predicted)
                );
                self.model_mismatch(&format!("{how}-differs-from-model"), message);
            }
        }
        if sent.len() > 1 {
            ctx.label("emitted:multi-entry-bundle");
        }
        // (an "empty" bundle that still holds actions is dropped by the executor: those actions are
        // not emitted and show up as lost in the history check)
        let _ = inside;
        if !sent.is_empty() {
            self.emitted.push(sent);
        }
        Ok(())
    }

    fn pop_finished(&mut self, ctx: &mut Ctx) -> CaseResult {
        let predicted = self.model.pop_finished();
        match self.factory.pop_finished() {
            None => {
                ctx.label("noop:pop-finished-empty");
                if let Some(predicted) = predicted {
                    self.model_mismatch(
                        "pop-finished-differs-from-model",
                        format!("no finished bundle, model predicted {}", describe_ids(&predicted)),
                    );
                }
            }
            Some(bundle) => {
                ctx.label("pop-finished");
                if predicted.is_none() {
                    let inside = contents(&bundle)?;
                    let message = format!(
                        "finished bundle {} although the model's finished queue is empty",
                        describe(&inside, &self.items)
                    );
                    self.model_mismatch("pop-finished-differs-from-model", message);
                }
                self.emit("pop-finished", &bundle, predicted.as_ref(), ctx)?;
            }
        }
        Ok(())
    }

    fn pop_now(&mut self, ctx: &mut Ctx) -> Result<bool, Failure> {
        let had_finished = !self.factory.finished().is_empty();
        let predicted = self.model.pop_now();
        let bundle = self.factory.pop_now();
        let empty = bundle.is_empty();
        if empty {
            ctx.label("noop:pop-now-empty");
        } else if had_finished {
            ctx.label("pop-now:from-finished");
        } else {
            ctx.label("pop-now:preempts-current");
        }
        self.emit("pop-now", &bundle, Some(&predicted), ctx)?;
        Ok(empty)
    }

    fn check_is_full(&mut self) {
        let real = self.factory.is_full();
        let predicted = self.model.is_full();
        if real != predicted {
            self.model_mismatch(
                "is-full-differs-from-model",
                format!("is_full() = {real}, model says {predicted}"),
            );
        }
    }

    /// Exactly once and in order: everything emitted == everything accepted.
    fn check_history(&self) -> CaseResult {
        let emitted: Vec<&raw::RollupDataSubmission> = self.emitted.iter().flatten().collect();
        let accepted: Vec<&raw::RollupDataSubmission> = self
            .accepted
            .iter()
            .map(|id| &self.items[*id].expected)
            .collect();
        if emitted == accepted {
            return Ok(());
        }
        // identical transactions (same rollup, fee asset and payload, e.g. several empty ones)
        // cannot be told apart: count them under the id of the first equal push
        let id_of = |c: &raw::RollupDataSubmission| self.items.iter().position(|i| i.expected == *c);
        let emitted_ids: Vec<Option<usize>> = emitted.iter().map(|c| id_of(c)).collect();
        let accepted_ids: Vec<usize> = accepted
            .iter()
            .map(|c| id_of(c).expect("accepted items are in `items`"))
            .collect();
        let shown: Vec<String> = emitted_ids
            .iter()
            .map(|id| id.map_or("?".to_string(), |id| format!("#{id}")))
            .collect();
        let detail = format!(
            "accepted in order {}; emitted bundles in order: {} (flattened [{}]); identical \
             transactions are shown under the number of the first of them",
            describe_ids(&accepted_ids),
            self.emitted
                .iter()
                .map(|b| describe(b, &self.items))
                .collect::<Vec<_>>()
                .join(" "),
            shown.join(",")
        );
        if let Some(pos) = emitted_ids.iter().position(Option::is_none) {
            // distinguish "rewritten differently than documented" from garbage
            let got = emitted[pos];
            let same_but_fee_asset = self.items.iter().any(|i| {
                i.expected.rollup_id == got.rollup_id && i.expected.data == got.data
            });
            if same_but_fee_asset {
                return Err(Failure::new(
                    "tx-altered",
                    format!(
                        "an emitted transaction differs from the pushed one in its fee asset only: `{}` \
                         (documented rewrite is ibc/<sha256 of the denom>); {detail}",
                        got.fee_asset
                    ),
                ));
            }
            return Err(Failure::new(
                "tx-unknown",
                format!("an emitted transaction was never pushed; {detail}"),
            ));
        }
        let emitted_ids: Vec<usize> = emitted_ids.into_iter().flatten().collect();
        let count = |ids: &[usize], id: usize| ids.iter().filter(|e| **e == id).count();
        for id in &accepted_ids {
            let (want, got) = (count(&accepted_ids, *id), count(&emitted_ids, *id));
            if got < want {
                return Err(Failure::new(
                    "tx-lost",
                    format!("transaction #{id} was accepted {want} time(s) but emitted {got} time(s); {detail}"),
                ));
            }
        }
        for id in &emitted_ids {
            let (want, got) = (count(&accepted_ids, *id), count(&emitted_ids, *id));
            if want == 0 {
                return Err(Failure::new(
                    "refused-tx-emitted",
                    format!("transaction #{id} was refused but emitted; {detail}"),
                ));
            }
            if got > want {
                return Err(Failure::new(
                    "tx-duplicated",
                    format!("transaction #{id} was accepted {want} time(s) but emitted {got} time(s); {detail}"),
                ));
            }
        }
        Err(Failure::new(
            "tx-reordered",
            format!("emission order differs from acceptance order; {detail}"),
        ))
    }
}

fn run_case(case: &Case, ctx: &mut Ctx) -> CaseResult {
    let mut run = Run {
        case,
        factory: VerifBundleFactory::new(case.max_size, case.capacity),
        model: Model::new(case.max_size, case.capacity),
        model_in_sync: true,
        model_failure: None,
        items: Vec::new(),
        accepted: Vec::new(),
        emitted: Vec::new(),
        flushes: 0,
        refusals: 0,
        max_fill_permille: 0,
    };
    ctx.label(format!("capacity:{}", case.capacity.min(5)));
    ctx.label(match case.max_size {
        m if m < ENTRY_BASE => "max:below-one-entry",
        m if m < 2 * ENTRY_BASE => "max:one-entry",
        m if m < 4 * ENTRY_BASE => "max:two-or-three-entries",
        _ => "max:many-entries",
    });
    run.check_is_full();
    for op in &case.ops {
        match op {
            Op::Push {
                size,
                rollup,
                fee_asset,
                fill,
            } => run.push(size, *rollup, *fee_asset, *fill, ctx)?,
            Op::PopFinished => run.pop_finished(ctx)?,
            Op::PopNow => {
                run.pop_now(ctx)?;
            }
        }
        run.check_is_full();
    }
    // shut-down: the executor calls pop_now() until it gets an empty bundle
    let mut drained = 0_usize;
    loop {
        let empty = run.pop_now(ctx)?;
        if empty {
            break;
        }
        drained += 1;
        vensure!(
            drained <= case.ops.len() + 2,
            "drain-does-not-terminate",
            "the shut-down drain produced {drained} non-empty bundles after {} operations",
            case.ops.len()
        );
    }
    // whatever is still inside after the drain is lost; make that visible to the history check by
    // not adding it to `emitted`
    run.check_history()?;
    let left = observe(&run.factory)?;
    vensure!(
        left.curr.is_empty() && left.finished.iter().all(Vec::is_empty),
        "tx-lost",
        "transactions are still inside the factory after the shut-down drain: current {}, finished {}",
        describe(&left.curr, &run.items),
        left.finished.len()
    );
    if let Some(failure) = run.model_failure.take() {
        return Err(failure);
    }
    ctx.note("pushes", run.items.len());
    ctx.note("accepted", run.accepted.len());
    ctx.note("refusals", run.refusals);
    ctx.note("flushes", run.flushes);
    ctx.note("bundles_emitted", run.emitted.len());
    ctx.note("fullest_bundle_permille_of_max", run.max_fill_permille);
    if run.max_fill_permille == 1000 {
        ctx.label("emitted:bundle-exactly-max");
    }
    ctx.set_nontrivial(run.flushes >= 1 && run.refusals >= 1);
    Ok(())
}

// ---------------------------------------------------------------------------------------------
// generator
// ---------------------------------------------------------------------------------------------

fn size_class() -> impl Strategy<Value = SizeClass> {
    prop_oneof![
        5 => (0_u8..=12).prop_map(SizeClass::Tiny),
        4 => any::<u16>().prop_map(SizeClass::Mid),
        3 => Just(SizeClass::FitsExactly),
        2 => Just(SizeClass::FitsPlusOne),
        1 => Just(SizeClass::MaxMinusOne),
        2 => Just(SizeClass::Max),
        1 => Just(SizeClass::MaxPlusOne),
        1 => any::<u16>().prop_map(SizeClass::Huge),
    ]
}

fn op() -> impl Strategy<Value = Op> {
    prop_oneof![
        15 => (size_class(), any::<u16>(), any::<u16>(), any::<u8>()).prop_map(
            |(size, rollup, fee_asset, fill)| Op::Push {
                size,
                rollup,
                fee_asset,
                fill,
            }
        ),
        2 => Just(Op::PopFinished),
        2 => Just(Op::PopNow),
    ]
}

fn max_size() -> impl Strategy<Value = usize> {
    prop_oneof![
        // anywhere in the stated range
        8 => 50_usize..=2000,
        // around the fixed cost of one entry (106 bytes): nothing / exactly one empty entry fits
        2 => (ENTRY_BASE - 6)..=(ENTRY_BASE + 14),
        // around two and three entries, and around the payload-length varint step (127 -> 128
        // data bytes: 235 and 237 bytes are representable entry sizes, 236 is not)
        2 => (2 * ENTRY_BASE - 4)..=(2 * ENTRY_BASE + 28),
        1 => (3 * ENTRY_BASE - 4)..=(3 * ENTRY_BASE + 12),
        1 => prop_oneof![Just(50_usize), Just(2000)],
    ]
}

fn case(_tier: Tier) -> BoxedStrategy<Case> {
    (
        max_size(),
        0_usize..=4,
        proptest::collection::vec(op(), 5..=120),
    )
        .prop_map(|(max_size, capacity, ops)| Case {
            max_size,
            capacity,
            ops,
        })
        .boxed()
}

pub fn run(args: &[String]) -> ! {
    let mut s = Session::from_args("C16", "exploration", args);
    VERBOSE.store(s.is_replay(), Ordering::Relaxed);
    s.assume(
        "the size of a bundle is what composer's config documents for max_bytes_per_bundle: the sum of \
         the protobuf encodings of its RollupDataSubmission actions (after the fee-asset rewrite), \
         recomputed by encoding every emitted action; framing added by TransactionBody/Transaction \
         (per-action tags and lengths, chain id, nonce, signature, key) is outside the limit and only \
         measured (coverage.tx_body_*)",
    );
    s.assume(
        "the factory is driven through the same four calls the executor makes (try_push, \
         next_finished().pop(), pop_now(), pop_now()-until-empty at shut-down); the select! loop, the \
         channel and the submission future are not part of this check",
    );
    s.run_prop(Prop {
        name: "push_pop_histories",
        rule: "max bundle size 50..=2000 (biased to 1x/2x/3x the fixed 106-byte entry cost and the varint \
               step), finished-queue capacity 0..=4, 5..=120 ops over Push(tiny | mid | fits-exactly | \
               fits+1 | max-1 | max | max+1 | huge; 3 rollup ids; 4 fee assets), PopFinished, PopNow, \
               then the shut-down drain. Non-trivial: the history contains at least one flush of the \
               current bundle into the finished queue and at least one refused push",
        cases_quick: 20_000,
        cases_thorough: 1_000_000,
        shards: 12,
        min_nontrivial: 0.3,
        max_shrink_iters: 20_000,
        strategy: Box::new(case),
        test: Box::new(run_case),
    });
    s.extra(
        "tx_body_max_excess_bytes",
        TX_BODY_MAX_EXCESS.load(Ordering::Relaxed),
    );
    s.extra(
        "tx_body_larger_than_max_bundles",
        TX_BODY_OVER_MAX.load(Ordering::Relaxed),
    );
    s.extra(
        "tx_body_measured_bundles",
        BUNDLES_EMITTED.load(Ordering::Relaxed),
    );
    s.finish()
}
