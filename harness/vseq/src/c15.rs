//! C15 — oracle prices need > 2/3 validly signed extensions and stay within the reported range.

use astria_core::{
    generated::astria::sequencerblock::v1 as rawblock,
    oracles::price_feed::types::v2::{
        CurrencyPairId,
        Price,
    },
    protocol::price_feed::v1::{
        CurrencyPairInfo,
        ExtendedCommitInfoWithCurrencyPairMapping,
    },
    sequencerblock::v1::block::DataItem,
};
use bytes::Bytes;
use indexmap::IndexMap;
use prost::Message as _;
use proptest::prelude::*;
use serde::{
    Deserialize,
    Serialize,
};
use tendermint::{
    abci::types::{
        BlockSignatureInfo,
        ExtendedCommitInfo,
    },
    block::BlockIdFlag,
};
use vcommon::{
    vensure,
    CaseResult,
    Ctx,
    Prop,
    Session,
    Tier,
};

use crate::{
    l1::{
        self,
        BlockCtx,
        VoteKind,
        VoteSpec,
    },
    world::{
        self,
        GenesisSpec,
        N_VALIDATOR_KEYS,
        WORLD,
    },
};

#[derive(Clone, Debug, Serialize, Deserialize, PartialEq, Eq)]
pub enum Tamper {
    /// mark validator i's vote as absent and strip its extension (what a proposer does when it
    /// prunes an invalid extension)
    Prune(u8),
    /// replace validator i's extension signature by one from another key
    ForgeWrongKey(u8),
    /// re-sign validator i's extension for another height / round / chain id
    ResignWrongHeight(u8),
    ResignWrongRound(u8),
    ResignWrongChain(u8),
    /// change the extension bytes but keep the signature
    AlterExtension(u8),
    /// list validator i twice
    Duplicate(u8),
    /// add a vote of a key that is not a validator
    UnknownVoter,
    PowerMismatch(u8),
    /// claim validator i voted nil but keep extension and signature
    NilWithExtension(u8),
    /// an extension with more prices than currency pairs exist
    TooManyPrices(u8),
    /// an extension whose price field is longer than 33 bytes
    LongPrice(u8),
    /// drop a vote entirely
    DropVote(u8),
    EmptyCommit,
    EmptyCommitWrongRound,
    WrongRound,
}

#[derive(Clone, Debug, Serialize, Deserialize)]
pub struct Case {
    /// (validator key, power)
    pub validators: Vec<(u8, u32)>,
    pub votes: Vec<VoteSpec>,
    pub tampers: Vec<Tamper>,
    pub aspen: u8,
}

fn price() -> BoxedStrategy<i128> {
    prop_oneof![
        6 => 1_i128..1_000_000,
        2 => Just(0_i128),
        2 => -5_i128..6,
        1 => Just(i128::MAX),
        1 => Just(i128::MIN),
        1 => Just(i128::MAX - 1),
        1 => Just(i128::MIN + 1),
        1 => any::<i128>(),
    ]
    .boxed()
}

fn vote() -> BoxedStrategy<VoteSpec> {
    let prices = proptest::collection::vec((0_u64..3, price()), 0..3);
    prop_oneof![
        10 => proptest::option::weighted(0.8, prices).prop_map(|prices| VoteSpec { kind: VoteKind::Commit, prices }),
        1 => Just(VoteSpec { kind: VoteKind::Nil, prices: None }),
        1 => Just(VoteSpec { kind: VoteKind::Absent, prices: None }),
    ]
    .boxed()
}

fn tamper() -> BoxedStrategy<Tamper> {
    let i = || 0_u8..5;
    prop_oneof![
        8 => i().prop_map(Tamper::Prune),
        1 => i().prop_map(Tamper::ForgeWrongKey),
        1 => i().prop_map(Tamper::ResignWrongHeight),
        1 => i().prop_map(Tamper::ResignWrongRound),
        1 => i().prop_map(Tamper::ResignWrongChain),
        1 => i().prop_map(Tamper::AlterExtension),
        1 => i().prop_map(Tamper::Duplicate),
        1 => Just(Tamper::UnknownVoter),
        1 => i().prop_map(Tamper::PowerMismatch),
        1 => i().prop_map(Tamper::NilWithExtension),
        1 => i().prop_map(Tamper::TooManyPrices),
        1 => i().prop_map(Tamper::LongPrice),
        1 => i().prop_map(Tamper::DropVote),
        1 => Just(Tamper::EmptyCommit),
        1 => Just(Tamper::EmptyCommitWrongRound),
        1 => Just(Tamper::WrongRound),
    ]
    .boxed()
}

fn case(_tier: Tier) -> BoxedStrategy<Case> {
    // powers chosen so that every residue of the total mod 3 and exact-boundary subsets occur
    let power = prop_oneof![4 => 1_u32..4, 2 => Just(1_u32), 1 => Just(10_u32), 1 => Just(1_u32 << 30)];
    (
        proptest::collection::vec((0_u8..N_VALIDATOR_KEYS as u8, power), 1..=5),
        proptest::collection::vec(vote(), 0..=5),
        proptest::collection::vec(tamper(), 0..=3),
        0_u8..3,
    )
        .prop_map(|(validators, votes, tampers, aspen)| Case {
            validators,
            votes,
            tampers,
            aspen,
        })
        .boxed()
}

fn genesis_for(case: &Case) -> GenesisSpec {
    GenesisSpec {
        sudo: 0,
        ibc_sudo: 1,
        relayers: 0,
        balances: vec![vec![vcommon::gen::U128(1_000_000_000); world::N_KEYS]; world::N_ASSETS],
        fees: vec![Some((vcommon::gen::U128(1), vcommon::gen::U128(1))); 18],
        fee_assets: 1,
        bridges: vec![None; 3],
        aspen: case.aspen,
        blackburn_after: 0,
        validators: case.validators.clone(),
    }
}

fn sign(key_idx: usize, extension: &[u8], height: u64, round: u32, chain: &str) -> tendermint::Signature {
    let sig = WORLD.validator_keys[key_idx].sign(&l1::vote_extension_sign_bytes(extension, height, round, chain));
    tendermint::Signature::try_from(sig.to_bytes().to_vec()).unwrap()
}

fn key_index_of(address: &[u8; 20]) -> Option<usize> {
    (0..N_VALIDATOR_KEYS).find(|i| WORLD.validator_keys[*i].address_bytes() == *address)
}

/// Applies the tampers; returns the extended commit to propose and whether, by the property's
/// reference predicate, it MUST be rejected (`Some(reason)`).
fn apply_tampers(
    honest: &ExtendedCommitInfo,
    tampers: &[Tamper],
    voted_height: u64,
) -> (ExtendedCommitInfo, Option<&'static str>) {
    let mut out = honest.clone();
    let mut must_reject: Option<&'static str> = None;
    let n = out.votes.len();
    let is_commit = |v: &tendermint::abci::types::ExtendedVoteInfo| v.sig_info == BlockSignatureInfo::Flag(BlockIdFlag::Commit);
    for tamper in tampers {
        let idx = |i: &u8| *i as usize % n.max(1);
        match tamper {
            Tamper::Prune(i) => {
                if let Some(v) = out.votes.get_mut(idx(i)) {
                    v.sig_info = BlockSignatureInfo::Flag(BlockIdFlag::Absent);
                    v.vote_extension = Bytes::new();
                    v.extension_signature = None;
                }
            }
            Tamper::ForgeWrongKey(i) => {
                if let Some(v) = out.votes.get_mut(idx(i)) {
                    if is_commit(v) {
                        let own = key_index_of(&v.validator.address).unwrap_or(0);
                        let other = (own + 1) % N_VALIDATOR_KEYS;
                        v.extension_signature =
                            Some(sign(other, &v.vote_extension, voted_height, out.round.value(), world::CHAIN_ID));
                        must_reject.get_or_insert("forged signature (wrong key)");
                    }
                }
            }
            Tamper::ResignWrongHeight(i) | Tamper::ResignWrongRound(i) | Tamper::ResignWrongChain(i) => {
                if let Some(v) = out.votes.get_mut(idx(i)) {
                    if is_commit(v) {
                        let own = key_index_of(&v.validator.address).unwrap_or(0);
                        let (h, r, c) = match tamper {
                            Tamper::ResignWrongHeight(_) => (voted_height + 1, out.round.value(), world::CHAIN_ID),
                            Tamper::ResignWrongRound(_) => (voted_height, out.round.value() + 1, world::CHAIN_ID),
                            _ => (voted_height, out.round.value(), "another-chain"),
                        };
                        v.extension_signature = Some(sign(own, &v.vote_extension, h, r, c));
                        must_reject.get_or_insert("signature over other height / round / chain id");
                    }
                }
            }
            Tamper::AlterExtension(i) => {
                if let Some(v) = out.votes.get_mut(idx(i)) {
                    if is_commit(v) {
                        v.vote_extension = l1::encode_prices(&[(0, 424_242)]);
                        if v.extension_signature.is_some() {
                            must_reject.get_or_insert("extension altered after signing");
                        }
                    }
                }
            }
            Tamper::Duplicate(i) => {
                if !out.votes.is_empty() {
                    let copy = out.votes[idx(i) % out.votes.len()].clone();
                    out.votes.push(copy);
                    must_reject.get_or_insert("validator listed twice / votes differ from last commit");
                }
            }
            Tamper::UnknownVoter => {
                let stranger = astria_core::crypto::SigningKey::from([0x77; 32]);
                let ext = Bytes::new();
                let sig = stranger.sign(&l1::vote_extension_sign_bytes(&ext, voted_height, out.round.value(), world::CHAIN_ID));
                out.votes.push(tendermint::abci::types::ExtendedVoteInfo {
                    validator: tendermint::abci::types::Validator {
                        address: stranger.address_bytes(),
                        power: 5_u32.into(),
                    },
                    sig_info: BlockSignatureInfo::Flag(BlockIdFlag::Commit),
                    vote_extension: ext,
                    extension_signature: Some(tendermint::Signature::try_from(sig.to_bytes().to_vec()).unwrap()),
                });
                must_reject.get_or_insert("vote of a non-validator / votes differ from last commit");
            }
            Tamper::PowerMismatch(i) => {
                if let Some(v) = out.votes.get_mut(idx(i)) {
                    v.validator.power = (v.validator.power.value() as u32 + 1).into();
                    must_reject.get_or_insert("power differs from last commit");
                }
            }
            Tamper::NilWithExtension(i) => {
                if let Some(v) = out.votes.get_mut(idx(i)) {
                    if is_commit(v) {
                        v.sig_info = BlockSignatureInfo::Flag(BlockIdFlag::Nil);
                        must_reject.get_or_insert("nil vote differs from last commit / carries an extension");
                    }
                }
            }
            Tamper::TooManyPrices(i) => {
                if let Some(v) = out.votes.get_mut(idx(i)) {
                    if is_commit(v) {
                        let own = key_index_of(&v.validator.address).unwrap_or(0);
                        let many: Vec<(u64, i128)> = (0..40).map(|k| (k, 1)).collect();
                        v.vote_extension = l1::encode_prices(&many);
                        v.extension_signature =
                            Some(sign(own, &v.vote_extension, voted_height, out.round.value(), world::CHAIN_ID));
                        must_reject.get_or_insert("oversized extension (too many prices)");
                    }
                }
            }
            Tamper::LongPrice(i) => {
                if let Some(v) = out.votes.get_mut(idx(i)) {
                    if is_commit(v) {
                        let own = key_index_of(&v.validator.address).unwrap_or(0);
                        let raw = astria_core::generated::price_feed::abci::v2::OracleVoteExtension {
                            prices: [(0_u64, Bytes::from(vec![1_u8; 34]))].into_iter().collect(),
                        };
                        v.vote_extension = raw.encode_to_vec().into();
                        v.extension_signature =
                            Some(sign(own, &v.vote_extension, voted_height, out.round.value(), world::CHAIN_ID));
                        must_reject.get_or_insert("oversized extension (price longer than 33 bytes)");
                    }
                }
            }
            Tamper::DropVote(i) => {
                if n > 0 && !out.votes.is_empty() {
                    let k = idx(i) % out.votes.len();
                    out.votes.remove(k);
                    if !out.votes.is_empty() {
                        must_reject.get_or_insert("votes differ from last commit (one missing)");
                    }
                }
            }
            Tamper::EmptyCommit => out.votes.clear(),
            Tamper::EmptyCommitWrongRound => {
                out.votes.clear();
                out.round = tendermint::block::Round::try_from(out.round.value() + 1).unwrap();
                must_reject.get_or_insert("round differs from last commit");
            }
            Tamper::WrongRound => {
                out.round = tendermint::block::Round::try_from(out.round.value() + 1).unwrap();
                must_reject.get_or_insert("round differs from last commit");
            }
        }
    }
    let _ = must_reject;
    let verdict = reference_verdict(&out, honest, voted_height);
    (out, verdict)
}

/// The property's acceptance predicate, evaluated on the final extended commit alone (so that
/// tamperings which cancel each other, e.g. forging a signature and then pruning that vote, are
/// judged correctly). `Some(reason)` = must be rejected.
fn reference_verdict(
    proposed: &ExtendedCommitInfo,
    last_commit: &ExtendedCommitInfo,
    voted_height: u64,
) -> Option<&'static str> {
    use astria_core::crypto::Signature;
    if proposed.round != last_commit.round {
        return Some("round differs from last commit");
    }
    if proposed.votes.is_empty() {
        // an empty extended commit with the right round is always acceptable
        return None;
    }
    if proposed.votes.len() != last_commit.votes.len() {
        return Some("number of votes differs from last commit");
    }
    let mut total: u128 = 0;
    let mut signed: u128 = 0;
    for (vote, reported) in proposed.votes.iter().zip(&last_commit.votes) {
        if vote.validator.address != reported.validator.address || vote.validator.power != reported.validator.power {
            return Some("validator address or power differs from last commit");
        }
        total += u128::from(vote.validator.power.value());
        let pruned = vote.sig_info == BlockSignatureInfo::Flag(BlockIdFlag::Absent)
            && vote.vote_extension.is_empty()
            && vote.extension_signature.is_none();
        if !pruned && vote.sig_info != reported.sig_info {
            return Some("vote flag differs from last commit");
        }
        if vote.sig_info != BlockSignatureInfo::Flag(BlockIdFlag::Commit) {
            if !vote.vote_extension.is_empty() || vote.extension_signature.is_some() {
                return Some("non-commit vote carries an extension");
            }
            continue;
        }
        // a commit vote: the extension must be validly signed by the validator it is attributed to
        let Some(key) = key_index_of(&vote.validator.address) else {
            return Some("vote attributed to a non-validator");
        };
        let Some(signature) = vote
            .extension_signature
            .as_ref()
            .and_then(|s| Signature::try_from(s.as_bytes()).ok())
        else {
            return Some("extension signature missing");
        };
        let message =
            l1::vote_extension_sign_bytes(&vote.vote_extension, voted_height, proposed.round.value(), world::CHAIN_ID);
        if WORLD.validator_keys[key]
            .verification_key()
            .verify(&signature, &message)
            .is_err()
        {
            return Some("extension signature invalid");
        }
        // size limits of an oracle extension: at most one price per known currency pair (2), each
        // at most 33 bytes
        match astria_core::generated::price_feed::abci::v2::OracleVoteExtension::decode(vote.vote_extension.clone()) {
            Ok(raw) => {
                if raw.prices.len() > 2 || raw.prices.values().any(|p| p.len() > 33) {
                    return Some("oversized extension");
                }
            }
            Err(_) => return Some("undecodable extension"),
        }
        signed += u128::from(vote.validator.power.value());
    }
    if 3 * signed <= 2 * total {
        return Some("signing power not above two thirds");
    }
    None
}

fn mapping_for(commit: &ExtendedCommitInfo) -> IndexMap<CurrencyPairId, CurrencyPairInfo> {
    // ids known to the chain after Aspen: 0 = BTC/USD, 1 = ETH/USD (8 decimals)
    let mut ids = std::collections::BTreeSet::new();
    for vote in &commit.votes {
        if let Ok(raw) = astria_core::generated::price_feed::abci::v2::OracleVoteExtension::decode(
            vote.vote_extension.clone(),
        ) {
            ids.extend(raw.prices.keys().copied());
        }
    }
    let mut map = IndexMap::new();
    for id in ids {
        let pair = match id {
            0 => "BTC/USD",
            1 => "ETH/USD",
            _ => continue,
        };
        map.insert(
            CurrencyPairId::new(id),
            CurrencyPairInfo {
                currency_pair: pair.parse().unwrap(),
                decimals: 8,
            },
        );
    }
    map
}

fn reported_range(commit: &ExtendedCommitInfo) -> std::collections::BTreeMap<String, (i128, i128, usize)> {
    let mut out: std::collections::BTreeMap<String, (i128, i128, usize)> = std::collections::BTreeMap::new();
    for vote in &commit.votes {
        let Ok(raw) = astria_core::generated::price_feed::abci::v2::OracleVoteExtension::decode(vote.vote_extension.clone())
        else {
            continue;
        };
        for (id, bytes) in raw.prices {
            let pair = match id {
                0 => "BTC/USD",
                1 => "ETH/USD",
                _ => continue,
            };
            let Ok(be) = <[u8; 16]>::try_from(bytes.as_ref()) else {
                continue;
            };
            let price = i128::from_be_bytes(be);
            let e = out.entry(pair.to_string()).or_insert((price, price, 0));
            e.0 = e.0.min(price);
            e.1 = e.1.max(price);
            e.2 += 1;
        }
    }
    out
}

async fn run_case(case: &Case, ctx: &mut Ctx) -> CaseResult {
    let genesis = genesis_for(case);
    let mut proposer = world::boot(&genesis, 10).await;
    let mut validator = world::boot(&genesis, 10).await;
    let target = genesis.aspen_height() + 2;
    // empty blocks up to the first height that carries an extended commit
    for height in 1..target {
        let ve = l1::vote_extensions_enabled(&genesis, height);
        let last_commit = if ve {
            Some(l1::extended_commit(&l1::committed_validators(&validator).await, &[], height - 1, 0))
        } else {
            None
        };
        let bc = BlockCtx { height, round: 0, max_tx_bytes: 1_000_000, last_commit };
        let block = proposer
            .prepare_proposal(bc.prepare_request())
            .await
            .map_err(|e| vcommon::Failure::new("prepare-proposal-failed", format!("height {height}: {e}")))?
            .txs;
        for node in [&mut proposer, &mut validator] {
            node.process_proposal(bc.process_request(block.clone()))
                .await
                .map_err(|e| vcommon::Failure::new("honest-proposal-rejected", format!("height {height}: {e}")))?;
            if let Err(e) = node.finalize_block(bc.finalize_request(block.clone())).await {
                if l1::is_fee_recipient_overflow(&e) {
                    ctx.label("history-ends:fee-recipient-balance-would-exceed-u128");
                    return Ok(());
                }
                return Err(vcommon::Failure::new("finalize-failed", format!("height {height}: {e}")));
            }
            node.commit().await.map_err(|e| vcommon::Failure::new("commit-failed", e))?;
        }
    }
    let height = target;
    let validators = l1::committed_validators(&validator).await;
    let honest = l1::extended_commit(&validators, &case.votes, height - 1, 0);
    let bc = BlockCtx { height, round: 0, max_tx_bytes: 1_000_000, last_commit: Some(honest.clone()) };
    // ---- completeness: what prepare_proposal builds from an honest last commit is accepted ------
    let block = proposer
        .prepare_proposal(bc.prepare_request())
        .await
        .map_err(|e| vcommon::Failure::new("prepare-proposal-failed", format!("height {height}: {e}")))?
        .txs;
    let verdict = validator.process_proposal(bc.process_request(block.clone())).await;
    vensure!(
        verdict.is_ok(),
        "honest-extended-commit-rejected",
        "height {height}: the proposal PrepareProposal built from an honest last commit was rejected: {:?}",
        verdict
    );
    // ---- soundness: a tampered extended commit -------------------------------------------------------
    let (tampered, must_reject) = apply_tampers(&honest, &case.tampers, height - 1);
    let mapping = mapping_for(&tampered);
    let item = DataItem::ExtendedCommitInfo(
        ExtendedCommitInfoWithCurrencyPairMapping::new(tampered.clone(), mapping)
            .into_raw()
            .encode_to_vec()
            .into(),
    )
    .encode();
    // the extended commit info is the last injected item (index 2 without an upgrade item)
    let index = block
        .iter()
        .position(|b| {
            rawblock::DataItem::decode(b.clone())
                .ok()
                .is_some_and(|d| matches!(d.value, Some(rawblock::data_item::Value::ExtendedCommitInfo(_))))
        })
        .ok_or_else(|| vcommon::Failure::new("no-extended-commit-item", format!("height {height}: proposal has no extended commit info item")))?;
    let mut proposal = block.clone();
    proposal[index] = item;
    let bc2 = BlockCtx { round: 1, ..bc.clone() };
    // CometBFT reports the same (honest) last commit to the validators
    let mut request = bc2.process_request(proposal.clone());
    request.proposed_last_commit = Some(l1::commit_info_of(&honest));
    let verdict = validator.process_proposal(request).await;
    for t in &case.tampers {
        ctx.label(format!("tamper:{}", format!("{t:?}").split('(').next().unwrap_or("?")));
    }
    let total: u128 = tampered.votes.iter().map(|v| u128::from(v.validator.power.value())).sum();
    let signed: u128 = tampered
        .votes
        .iter()
        .filter(|v| v.sig_info == BlockSignatureInfo::Flag(BlockIdFlag::Commit))
        .map(|v| u128::from(v.validator.power.value()))
        .sum();
    // within one unit of power of the threshold?
    let near = total > 0 && {
        let min_power = tampered.votes.iter().map(|v| u128::from(v.validator.power.value())).min().unwrap_or(1);
        let lhs = 3 * signed;
        let rhs = 2 * total;
        lhs.abs_diff(rhs) <= 3 * min_power
    };
    if near {
        ctx.label("near-threshold");
        ctx.nontrivial();
    }
    match (&verdict, must_reject) {
        (Ok(()), Some(why)) => {
            vensure!(
                false,
                "unsound-extended-commit-accepted",
                "height {height}: ProcessProposal accepted an extended commit that must be rejected ({why}); tampers {:?}; signed power {signed} of {total}",
                case.tampers
            );
        }
        (Err(e), None) => {
            vensure!(
                false,
                "valid-extended-commit-rejected",
                "height {height}: ProcessProposal rejected an extended commit that satisfies every stated condition (signed power {signed} of {total}, tampers {:?}): {e}",
                case.tampers
            );
        }
        (Ok(()), None) => ctx.label("accepted"),
        (Err(_), Some(_)) => ctx.label("rejected"),
    }
    if verdict.is_err() {
        return Ok(());
    }
    // ---- accepted: prices published by the block stay within what was reported ------------------------
    let mut finalize = bc2.finalize_request(proposal);
    finalize.decided_last_commit = l1::commit_info_of(&honest);
    let response = validator
        .finalize_block(finalize)
        .await
        .map_err(|e| vcommon::Failure::new("finalize-failed-after-accept", format!("height {height}: {e}")))?;
    let range = reported_range(&tampered);
    for event in response.events.iter().filter(|e| e.kind == "price_update") {
        let get = |k: &str| {
            event
                .attributes
                .iter()
                .find(|a| a.key_str().ok() == Some(k))
                .and_then(|a| a.value_str().ok().map(str::to_string))
                .unwrap_or_default()
        };
        let pair = get("currency_pair");
        let price: i128 = get("price").parse().unwrap_or(i128::MIN);
        let Some((lo, hi, count)) = range.get(&pair) else {
            vensure!(false, "price-for-unreported-pair", "height {height}: price published for {pair} which nobody reported");
            unreachable!()
        };
        if count % 2 == 0 {
            ctx.label("even-number-of-reports");
            ctx.nontrivial();
        }
        vensure!(
            *lo <= price && price <= *hi,
            "published-price-outside-reported-range",
            "height {height}: published price {price} for {pair} but the reports range over [{lo}, {hi}] ({count} reports)"
        );
        ctx.label("price-published");
    }
    Ok(())
}

// ---------------------------------------------------------------------------------------------
// sub-check 2: the price aggregation function alone, over the full i128 range
// ---------------------------------------------------------------------------------------------

#[derive(Clone, Debug, Serialize, Deserialize)]
pub struct PriceVectors {
    /// per validator: prices by pair id (as decimal strings: i128)
    pub votes: Vec<Vec<(u8, String)>>,
}

fn price_vectors(_tier: Tier) -> BoxedStrategy<PriceVectors> {
    let biased = prop_oneof![
        3 => Just(i128::MIN), 3 => Just(i128::MAX), 2 => Just(i128::MIN + 1), 2 => Just(i128::MAX - 1),
        6 => -4_i128..5, 4 => any::<i128>(), 2 => (i128::MAX - 5)..=i128::MAX, 2 => i128::MIN..(i128::MIN + 5),
    ];
    proptest::collection::vec(proptest::collection::vec((0_u8..2, biased), 0..3), 1..7)
        .prop_map(|votes| PriceVectors {
            votes: votes
                .into_iter()
                .map(|v| v.into_iter().map(|(id, p)| (id, p.to_string())).collect())
                .collect(),
        })
        .boxed()
}

fn price_vectors_case(case: &PriceVectors, ctx: &mut Ctx) -> CaseResult {
    use tendermint::abci::types::{
        ExtendedVoteInfo,
        Validator,
    };
    let mut votes = Vec::new();
    let mut reported: std::collections::BTreeMap<u8, Vec<i128>> = std::collections::BTreeMap::new();
    for (i, vote) in case.votes.iter().enumerate() {
        // a protobuf map keeps the last value of a repeated key
        let mut per_vote: std::collections::BTreeMap<u8, i128> = std::collections::BTreeMap::new();
        for (id, price) in vote {
            per_vote.insert(*id, price.parse().unwrap());
        }
        for (id, price) in &per_vote {
            reported.entry(*id).or_default().push(*price);
        }
        let prices: Vec<(u64, i128)> = per_vote.iter().map(|(id, p)| (u64::from(*id), *p)).collect();
        votes.push(ExtendedVoteInfo {
            validator: Validator {
                address: [i as u8; 20],
                power: 1_u32.into(),
            },
            sig_info: BlockSignatureInfo::Flag(BlockIdFlag::Commit),
            vote_extension: l1::encode_prices(&prices),
            extension_signature: None,
        });
    }
    let commit = ExtendedCommitInfo {
        round: tendermint::block::Round::default(),
        votes,
    };
    let mapping = mapping_for(&commit);
    let prices = match vcommon::catch(|| {
        astria_core::oracles::price_feed::utils::calculate_prices_from_vote_extensions(&commit, &mapping)
    }) {
        Ok(Ok(prices)) => prices,
        Ok(Err(e)) => {
            vensure!(false, "price-aggregation-failed", "aggregation of well-formed extensions failed: {e}");
            unreachable!()
        }
        Err(panic) => {
            vensure!(false, "price-aggregation-panicked", "aggregation panicked: {}", vcommon::panic_failure(panic).message);
            unreachable!()
        }
    };
    for price in prices {
        let id = if price.currency_pair().to_string() == "BTC/USD" { 0 } else { 1 };
        let list = reported.get(&id).cloned().unwrap_or_default();
        let (lo, hi) = (list.iter().min().copied().unwrap_or(0), list.iter().max().copied().unwrap_or(0));
        let p: i128 = Price::get(price.price());
        if list.len() % 2 == 0 {
            ctx.nontrivial();
            ctx.label("even-number-of-reports");
            if list.iter().any(|v| *v < 0) {
                ctx.label("even-with-negative");
            }
        }
        vensure!(
            lo <= p && p <= hi,
            "published-price-outside-reported-range",
            "aggregated price {p} for pair {id} but the reports are {:?}",
            list
        );
    }
    Ok(())
}

pub fn run(args: &[String]) -> ! {
    let mut s = Session::from_args("C15", "exploration", args);
    s.assume("CometBFT is modelled: the last commit reported to validators is the honest one; the proposer may place any extended commit info into its proposal");
    s.run_prop(Prop {
        name: "extended_commits",
        rule: "1..5 validators with powers hitting every residue of the total mod 3; an honest last commit \
               (commit / nil / absent votes, price vectors incl. negative and extreme values) and 0..3 \
               tamperings of the extended commit placed in the proposal (pruned votes, forged / re-signed \
               / altered extensions, duplicate, unknown voter, power mismatch, nil with extension, oversized \
               extensions, dropped vote, empty commit, wrong round). Oracle: the proposal built by \
               PrepareProposal from the honest commit is accepted; a tampered commit is accepted iff the \
               reference predicate (matches last commit, all included extensions validly signed, 3 x \
               signed power > 2 x listed power, or empty with the right round) holds; published prices lie \
               within the reported range. Non-trivial: signed power within one vote of the threshold, or \
               an even number of reports for a pair",
        cases_quick: 800,
        cases_thorough: 12_000,
        shards: 12,
        min_nontrivial: 0.2,
        max_shrink_iters: 300,
        strategy: Box::new(case),
        test: Box::new(|case, ctx| world::block_on(run_case(case, ctx))),
    });
    s.run_prop(Prop {
        name: "price_aggregation",
        rule: "1..6 vote extensions with 0..2 prices over all of i128 (biased to MIN, MAX, -4..4) through \
               the public aggregation function; every aggregated price lies within [min, max] of the \
               reports for its pair and nothing panics. Non-trivial: a pair with an even number of reports",
        cases_quick: 60_000,
        cases_thorough: 3_000_000,
        shards: 12,
        min_nontrivial: 0.2,
        max_shrink_iters: 2000,
        strategy: Box::new(price_vectors),
        test: Box::new(price_vectors_case),
    });
    s.finish()
}
