//! C02 — only the owner or the designated authority moves funds or changes privileged state.
//!
//! Observational oracle: after every *successful* transaction the full state diff is classified.
//! Any balance decrease of an account other than the signer, and any change of a privileged key
//! family, must be justified by the authority recorded in the state *before* the transaction.

use astria_sequencer::verif::TxOutcome;
use num_bigint::BigInt;
use vcommon::{
    vensure,
    CaseResult,
    Ctx,
    Prop,
    Session,
};

use crate::{
    c01::{
        balance_deltas,
        short,
    },
    hist::{
        self,
        Bias,
        History,
        Oracle,
        TxObs,
        Who,
    },
    world::WORLD,
};

#[derive(Default)]
pub struct C02Oracle {
    privileged_ok: usize,
    wrong_authority_attempts: usize,
}

fn b64(addr: &[u8; 20]) -> String {
    use base64::Engine as _;
    base64::engine::general_purpose::URL_SAFE.encode(addr)
}

fn addr_from_b64(text: &str) -> Option<[u8; 20]> {
    use base64::Engine as _;
    base64::engine::general_purpose::URL_SAFE
        .decode(text)
        .ok()?
        .try_into()
        .ok()
}

/// Which authority must have signed for `key` to change. `None`: not a privileged key.
enum Needs {
    Sudo,
    IbcSudo,
    /// sudo of that bridge account if it existed before, else the account itself
    BridgeSudoOrSelf([u8; 20]),
    /// only the account itself, and only when it was not a bridge account before
    NewBridgeSelf([u8; 20]),
    BridgeWithdrawer([u8; 20]),
    SelfOnly([u8; 20]),
}

fn classify(key: &str) -> Option<Needs> {
    if key == "authority/sudo" || key.starts_with("authority/validator") {
        return Some(Needs::Sudo);
    }
    if key == "ibc/sudo" {
        return Some(Needs::Sudo);
    }
    if key.starts_with("ibc/relayer/") {
        return Some(Needs::IbcSudo);
    }
    if key.starts_with("fees/") {
        return Some(Needs::Sudo);
    }
    if key.starts_with("price_feed/") {
        return Some(Needs::Sudo);
    }
    if let Some(rest) = key.strip_prefix("bridge/sudo/") {
        return addr_from_b64(rest).map(Needs::BridgeSudoOrSelf);
    }
    if let Some(rest) = key.strip_prefix("bridge/withdrawer/") {
        return addr_from_b64(rest).map(Needs::BridgeSudoOrSelf);
    }
    if let Some(rest) = key.strip_prefix("bridge/account/") {
        let (addr, field) = rest.split_once('/')?;
        let addr = addr_from_b64(addr)?;
        return Some(match field {
            "disabled" => Needs::BridgeSudoOrSelf(addr),
            "rollup_id" | "asset_id" => Needs::NewBridgeSelf(addr),
            "last_tx" => Needs::SelfOnly(addr),
            f if f.starts_with("withdrawal_event/") => Needs::BridgeWithdrawer(addr),
            _ => return None,
        });
    }
    None
}

impl Oracle for C02Oracle {
    fn on_tx(&mut self, obs: &TxObs<'_>, ctx: &mut Ctx) -> CaseResult {
        let tx = obs.tx;
        let kinds: Vec<&str> = tx.actions.iter().map(hist::action_row).collect();
        let TxOutcome::Executed(_) = obs.outcome else {
            return Ok(());
        };
        let signer = tx.signer;
        // ---- funds -------------------------------------------------------------------------
        for ((account, asset), delta) in balance_deltas(obs.pre, obs.post) {
            if delta >= BigInt::from(0) || account == signer {
                continue;
            }
            let bridge = obs.view.bridge_at(&account).cloned().or_else(|| {
                // not one of the harness keys: cannot be a bridge account the harness created
                None
            });
            let Some(bridge) = bridge else {
                vensure!(
                    false,
                    "foreign-account-debited",
                    "height {}: {:?} signed by {} decreased the {} balance of {} (not a bridge account) by {}",
                    obs.height,
                    kinds,
                    short(&signer),
                    crate::c01::asset_name(&asset),
                    short(&account),
                    -delta
                );
                unreachable!()
            };
            vensure!(
                bridge.withdrawer == Some(signer),
                "bridge-debited-by-non-withdrawer",
                "height {}: {:?} signed by {} decreased the balance of bridge account {} whose withdrawer is {:?}",
                obs.height,
                kinds,
                short(&signer),
                short(&account),
                bridge.withdrawer.as_ref().map(short)
            );
            // and by no more than the actions name it as a source
            let mut named = BigInt::from(0);
            for action in &tx.actions {
                use astria_core::protocol::transaction::v1::Action;
                match action {
                    Action::BridgeUnlock(a) if a.bridge_address.bytes() == account => {
                        named += hist::i128w::u(a.amount);
                    }
                    Action::BridgeTransfer(a) if a.bridge_address.bytes() == account => {
                        named += hist::i128w::u(a.amount);
                    }
                    Action::Ics20Withdrawal(a)
                        if a.bridge_address.map(|b| b.bytes()) == Some(account) =>
                    {
                        named += hist::i128w::u(a.amount);
                    }
                    _ => {}
                }
            }
            vensure!(
                -delta.clone() <= named,
                "bridge-debited-beyond-named-amounts",
                "height {}: {:?}: bridge account {} lost {} but the actions only withdraw {}",
                obs.height,
                kinds,
                short(&account),
                -delta,
                named
            );
            ctx.label("bridge-withdrawn-by-withdrawer");
        }
        // ---- privileged state --------------------------------------------------------------
        let mut changed: Vec<&String> = Vec::new();
        for (k, v) in &obs.post.verifiable {
            if obs.pre.verifiable.get(k) != Some(v) {
                changed.push(k);
            }
        }
        for k in obs.pre.verifiable.keys() {
            if !obs.post.verifiable.contains_key(k) {
                changed.push(k);
            }
        }
        let mut touched_privileged = false;
        for key in changed {
            let Some(needs) = classify(key) else {
                continue;
            };
            touched_privileged = true;
            let (ok, holder): (bool, String) = match needs {
                Needs::Sudo => (signer == obs.view.sudo, format!("sudo {}", short(&obs.view.sudo))),
                Needs::IbcSudo => (
                    signer == obs.view.ibc_sudo,
                    format!("ibc sudo {}", short(&obs.view.ibc_sudo)),
                ),
                Needs::BridgeSudoOrSelf(account) => match obs.view.bridge_at(&account) {
                    Some(bridge) => (
                        bridge.sudo == Some(signer),
                        format!("bridge sudo {:?}", bridge.sudo.as_ref().map(short)),
                    ),
                    None => (signer == account, format!("the new bridge account {} itself", short(&account))),
                },
                Needs::NewBridgeSelf(account) => (
                    obs.view.bridge_at(&account).is_none() && signer == account,
                    format!("{} itself, not yet a bridge account", short(&account)),
                ),
                Needs::BridgeWithdrawer(account) => match obs.view.bridge_at(&account) {
                    Some(bridge) => (
                        bridge.withdrawer == Some(signer),
                        format!("withdrawer {:?}", bridge.withdrawer.as_ref().map(short)),
                    ),
                    None => (false, "a bridge withdrawer (account is not a bridge)".to_string()),
                },
                Needs::SelfOnly(account) => (signer == account, format!("{} itself", short(&account))),
            };
            vensure!(
                ok,
                "privileged-state-changed-by-non-authority",
                "height {}: {:?} signed by {} changed `{}`, which only {} may change",
                obs.height,
                kinds,
                short(&signer),
                key.replace(&b64(&signer), &short(&signer)),
                holder
            );
        }
        if touched_privileged {
            self.privileged_ok += 1;
            ctx.label("privileged-change-by-authority");
        }
        Ok(())
    }
}

fn bias() -> Bias {
    Bias {
        currency_pairs: 3,
        transfer: 4,
        rollup: 1,
        bridge: 8,
        ics20: 3,
        bridge_admin: 6,
        sudo: 8,
        validator: 3,
        ibc_in: 0,
        wrong_signer_pct: 40,
        bad_nonce_pct: 2,
        max_blocks: 6,
        max_ops: 8,
        max_actions: 3,
        bridge_genesis_pct: 80,
    }
}

fn case(history: &History, ctx: &mut Ctx) -> CaseResult {
    let mut oracle = C02Oracle::default();
    // attempts by a wrong or former authority are what the generator's explicit signers are
    oracle.wrong_authority_attempts = history
        .blocks
        .iter()
        .flatten()
        .filter(|op| matches!(op, hist::AOp::Tx(t) if t.signer != Who::Auto))
        .count();
    let stats = crate::world::block_on(hist::run(history, &mut oracle, ctx))?;
    ctx.set_nontrivial(oracle.privileged_ok >= 1 && oracle.wrong_authority_attempts >= 1);
    ctx.note("txs_executed", stats.txs_executed);
    ctx.note("txs_failed", stats.txs_failed);
    ctx.note("privileged_changes", oracle.privileged_ok);
    let _ = &*WORLD;
    Ok(())
}

pub fn run(args: &[String]) -> ! {
    let mut s = Session::from_args("C02", "exploration", args);
    s.assume("the authority reference is the state read immediately before each transaction (sudo, IBC sudo, per-bridge sudo and withdrawer)");
    s.assume("signature checking itself (forged / foreign signatures) is covered by C17's transaction decoder check; here every transaction is validly signed by one of 8 known keys");
    s.run_prop_with(Prop {
        name: "histories",
        rule: "generated genesis x 1..6 blocks x 0..8 transactions biased to privileged actions (sudo / \
               IBC sudo / relayer / fee / fee-asset / validator changes, bridge init and sudo changes, \
               unlocks, bridge transfers, bridge ICS-20 withdrawals) with 40% explicitly chosen signers \
               (random keys, current sudo / IBC sudo, former or foreign bridge authorities, the bridge \
               account itself). Oracle: every balance decrease of a non-signer and every changed key \
               of a privileged family is justified by the pre-transaction authority. Non-trivial: \
               >= 1 successful privileged change and >= 1 explicitly-signed attempt in the history",
        cases_quick: 1400,
        cases_thorough: 25_000,
        shards: 12,
        min_nontrivial: 0.2,
        max_shrink_iters: 200,
        strategy: Box::new(|_| hist::history(bias())),
        test: Box::new(case),
    }, Some(hist::simplifier()));
    s.finish()
}
