//! ABCI-level driver: a model of what CometBFT sends to the application (heights, block hashes,
//! times, last-commit information with signed vote extensions) and helpers to push one decided
//! block through `PrepareProposal` / `ProcessProposal` / `FinalizeBlock` / `Commit` on one or more
//! independent nodes.

use astria_core::{
    crypto::SigningKey,
    generated::price_feed::abci::v2::OracleVoteExtension as RawOracleVoteExtension,
    protocol::transaction::v1::action::ValidatorUpdate,
};
use astria_sequencer::verif::{
    self,
    Node,
};
use bytes::Bytes;
use prost::Message as _;
use serde::{
    Deserialize,
    Serialize,
};
use sha2::{
    Digest as _,
    Sha256,
};
use tendermint::{
    abci::{
        request,
        response,
        types::{
            BlockSignatureInfo,
            CommitInfo,
            ExtendedCommitInfo,
            ExtendedVoteInfo,
            Validator,
            VoteInfo,
        },
    },
    block::{
        BlockIdFlag,
        Height,
        Round,
    },
};

use crate::{
    hist::{
        block_time,
        proposer,
    },
    world::{
        self,
        GenesisSpec,
        WORLD,
    },
};

/// How one validator voted on the previous block.
#[derive(Clone, Debug, Serialize, Deserialize, PartialEq, Eq)]
pub enum VoteKind {
    /// precommit for the block, with a vote extension
    Commit,
    Nil,
    Absent,
}

#[derive(Clone, Debug, Serialize, Deserialize, PartialEq, Eq)]
pub struct VoteSpec {
    pub kind: VoteKind,
    /// prices by currency pair id; `None` = empty extension (validator without an oracle)
    pub prices: Option<Vec<(u64, i128)>>,
}

impl VoteSpec {
    pub fn commit_empty() -> Self {
        Self {
            kind: VoteKind::Commit,
            prices: None,
        }
    }
}

pub fn encode_prices(prices: &[(u64, i128)]) -> Bytes {
    let raw = RawOracleVoteExtension {
        prices: prices
            .iter()
            .map(|(id, price)| (*id, Bytes::copy_from_slice(&price.to_be_bytes())))
            .collect(),
    };
    raw.encode_to_vec().into()
}

pub fn validator_signing_key(verification_key_bytes: &[u8]) -> Option<&'static SigningKey> {
    WORLD
        .validator_keys
        .iter()
        .find(|k| k.verification_key().as_bytes() == verification_key_bytes)
}

/// The bytes CometBFT has validators sign for a vote extension.
pub fn vote_extension_sign_bytes(extension: &[u8], height: u64, round: u32, chain_id: &str) -> Vec<u8> {
    use tendermint_proto::v0_38::types::CanonicalVoteExtension;
    CanonicalVoteExtension {
        extension: extension.to_vec(),
        height: height as i64,
        round: i64::from(round),
        chain_id: chain_id.to_string(),
    }
    .encode_length_delimited_to_vec()
}

/// Builds the extended commit for the block at `voted_height` from the validator set and the
/// per-validator vote specs (validators beyond `specs.len()` vote `Commit` with an empty
/// extension).
pub fn extended_commit(
    validators: &[ValidatorUpdate],
    specs: &[VoteSpec],
    voted_height: u64,
    round: u32,
) -> ExtendedCommitInfo {
    let mut votes = Vec::new();
    for (i, validator) in validators.iter().enumerate() {
        let default = VoteSpec::commit_empty();
        let spec = specs.get(i).unwrap_or(&default);
        let address = *validator.verification_key.address_bytes();
        let (sig_info, vote_extension, extension_signature) = match spec.kind {
            VoteKind::Commit => {
                let extension = spec.prices.as_ref().map_or_else(Bytes::new, |p| encode_prices(p));
                let key = validator_signing_key(validator.verification_key.as_bytes())
                    .expect("validators come from the harness key pool");
                let signature = key.sign(&vote_extension_sign_bytes(
                    &extension,
                    voted_height,
                    round,
                    world::CHAIN_ID,
                ));
                (
                    BlockSignatureInfo::Flag(BlockIdFlag::Commit),
                    extension,
                    Some(tendermint::Signature::try_from(signature.to_bytes().to_vec()).unwrap()),
                )
            }
            VoteKind::Nil => (BlockSignatureInfo::Flag(BlockIdFlag::Nil), Bytes::new(), None),
            VoteKind::Absent => (BlockSignatureInfo::Flag(BlockIdFlag::Absent), Bytes::new(), None),
        };
        votes.push(ExtendedVoteInfo {
            validator: Validator {
                address,
                power: u32::try_from(validator.power).unwrap_or(u32::MAX).into(),
            },
            sig_info,
            vote_extension,
            extension_signature,
        });
    }
    ExtendedCommitInfo {
        round: Round::try_from(round).unwrap(),
        votes,
    }
}

pub fn commit_info_of(extended: &ExtendedCommitInfo) -> CommitInfo {
    CommitInfo {
        round: extended.round,
        votes: extended
            .votes
            .iter()
            .map(|v| VoteInfo {
                validator: v.validator.clone(),
                sig_info: v.sig_info,
            })
            .collect(),
    }
}

pub fn block_hash(height: u64, round: u32, txs: &[Bytes]) -> tendermint::Hash {
    let mut hasher = Sha256::new();
    hasher.update(height.to_le_bytes());
    hasher.update(round.to_le_bytes());
    for tx in txs {
        hasher.update((tx.len() as u64).to_le_bytes());
        hasher.update(tx);
    }
    tendermint::Hash::Sha256(hasher.finalize().into())
}

/// Everything CometBFT knows when it asks for / distributes the block at `height`.
#[derive(Clone, Debug)]
pub struct BlockCtx {
    pub height: u64,
    pub round: u32,
    pub max_tx_bytes: i64,
    /// last commit (for `height - 1`) with extensions, if vote extensions are enabled
    pub last_commit: Option<ExtendedCommitInfo>,
}

impl BlockCtx {
    pub fn prepare_request(&self) -> request::PrepareProposal {
        request::PrepareProposal {
            max_tx_bytes: self.max_tx_bytes,
            txs: vec![],
            local_last_commit: self.last_commit.clone(),
            misbehavior: vec![],
            height: Height::try_from(self.height).unwrap(),
            time: block_time(self.height),
            next_validators_hash: tendermint::Hash::default(),
            proposer_address: proposer(),
        }
    }

    pub fn process_request(&self, txs: Vec<Bytes>) -> request::ProcessProposal {
        request::ProcessProposal {
            hash: block_hash(self.height, self.round, &txs),
            txs,
            proposed_last_commit: self.last_commit.as_ref().map(commit_info_of),
            misbehavior: vec![],
            height: Height::try_from(self.height).unwrap(),
            time: block_time(self.height),
            next_validators_hash: tendermint::Hash::default(),
            proposer_address: proposer(),
        }
    }

    pub fn finalize_request(&self, txs: Vec<Bytes>) -> request::FinalizeBlock {
        request::FinalizeBlock {
            hash: block_hash(self.height, self.round, &txs),
            txs,
            decided_last_commit: self.last_commit.as_ref().map_or(
                CommitInfo {
                    round: Round::default(),
                    votes: vec![],
                },
                commit_info_of,
            ),
            misbehavior: vec![],
            height: Height::try_from(self.height).unwrap(),
            time: block_time(self.height),
            next_validators_hash: tendermint::Hash::default(),
            proposer_address: proposer(),
        }
    }
}

/// Vote extensions are enabled for heights strictly above (Aspen activation + 1).
pub fn vote_extensions_enabled(genesis: &GenesisSpec, height: u64) -> bool {
    height > genesis.aspen_height() + 1
}

/// The validator set whose votes on `height - 1` CometBFT reports with the block at `height`:
/// read from the committed application state (input generation only).
pub async fn committed_validators(node: &Node) -> Vec<ValidatorUpdate> {
    verif::read::validators(node.state()).await.unwrap_or_default()
}

pub fn render_finalize(response: &response::FinalizeBlock) -> String {
    let mut out = String::new();
    out.push_str(&format!("app_hash={}\n", hex::encode(response.app_hash.as_bytes())));
    for (i, r) in response.tx_results.iter().enumerate() {
        out.push_str(&format!(
            "tx[{i}] code={:?} log={} events={:?}\n",
            r.code, r.log, r.events
        ));
    }
    out.push_str(&format!("events={:?}\n", response.events));
    out.push_str(&format!("validator_updates={:?}\n", response.validator_updates));
    out.push_str(&format!("consensus_param_updates={:?}\n", response.consensus_param_updates));
    out
}

/// `App::end_block` cannot credit the fee pot when the recipient's balance plus the pot exceeds
/// `u128::MAX`; the block then fails on every node alike. Only reachable in a generated world that
/// holds more than `u128::MAX` of one asset in total, which no listed property speaks about
/// (DESIGN.md, section 5, observations): drivers that do not model balances end the history there.
pub fn is_fee_recipient_overflow(error: &str) -> bool {
    error.contains("failed to increase fee recipient balance") && error.contains("overflow")
}

/// The shape of C06's recorded finding (`process_proposal` constructs every transaction against
/// the block-start state, `prepare_proposal` executes them one after the other): the rejection
/// comes from `construct_checked_txs`, AND the block holds at least two user transactions of which
/// one that is not the last carries an action that can change what a later construction check
/// reads (authority, fee schedule, fee assets, currency pairs, relayer set, bridge administration,
/// validator set). A construction failure in any other block is not that finding.
pub fn is_block_start_construction_shape(error: &str, block_items: &[bytes::Bytes], injected: usize) -> bool {
    use astria_core::{
        generated::astria::protocol::transaction::v1 as rawtx,
        protocol::transaction::v1::{
            Action,
            Transaction,
        },
        Protobuf as _,
    };
    use prost::Message as _;
    if !error.contains("failed to construct checked transaction") {
        return false;
    }
    let txs: Vec<Transaction> = block_items
        .iter()
        .skip(injected)
        .filter_map(|bytes| rawtx::Transaction::decode(bytes.clone()).ok())
        .filter_map(|raw| Transaction::try_from_raw(raw).ok())
        .collect();
    if txs.len() < 2 {
        return false;
    }
    txs[..txs.len() - 1].iter().any(|tx| {
        tx.actions().iter().any(|action| {
            matches!(
                action,
                Action::SudoAddressChange(_)
                    | Action::IbcSudoChange(_)
                    | Action::IbcRelayerChange(_)
                    | Action::FeeChange(_)
                    | Action::FeeAssetChange(_)
                    | Action::CurrencyPairsChange(_)
                    | Action::MarketsChange(_)
                    | Action::InitBridgeAccount(_)
                    | Action::BridgeSudoChange(_)
                    | Action::ValidatorUpdate(_)
            )
        })
    })
}
