//! Generated chain histories: abstract transactions and IBC packets, their late binding against
//! the observed chain state, and the interpreter that steps them through the real `App` one
//! transaction at a time (`begin_block` / `execute_tx` / `end_block`), handing every step to the
//! oracles of the property being checked.

use std::collections::{
    BTreeMap,
    BTreeSet,
};

use astria_core::{
    primitive::v1::{
        asset::Denom,
        TransactionId,
    },
    protocol::{
        fees::v1::FeeComponents,
        memos::v1::{
            Ics20TransferDeposit,
            Ics20WithdrawalFromRollup,
        },
        transaction::v1::{
            action::{
                self,
                BridgeLock,
                BridgeSudoChange,
                BridgeTransfer,
                BridgeUnlock,
                FeeAssetChange,
                FeeChange,
                IbcRelayerChange,
                IbcSudoChange,
                Ics20Withdrawal,
                InitBridgeAccount,
                RollupDataSubmission,
                SudoAddressChange,
                Transfer,
                ValidatorUpdate,
            },
            Action,
            TransactionBody,
        },
    },
    Protobuf as _,
};
use astria_sequencer::verif::{
    self,
    read::BridgeAccount,
    Node,
    TxOutcome,
};
use bytes::Bytes;
use ibc_types::core::{
    channel::{
        msgs::{
            MsgAcknowledgement,
            MsgRecvPacket,
            MsgTimeout,
        },
        ChannelId,
        Packet,
        PortId,
    },
    client::Height as IbcHeight,
};
use prost::Message as _;
use proptest::prelude::*;
use serde::{
    Deserialize,
    Serialize,
};
use sha2::Digest as _;
use vcommon::{
    gen::U128,
    CaseResult,
    Ctx,
};

use crate::world::{
    self,
    Dump,
    GenesisSpec,
    BRIDGE_SLOTS,
    N_ASSETS,
    N_KEYS,
    N_ROLLUPS,
    N_VALIDATOR_KEYS,
    WORLD,
};

pub const T0: i64 = 1_700_000_000;
pub const EVENT_IDS: [&str; 4] = ["ev-a", "ev-b", "ev-c", "ev-d"];
pub const CHANNELS: [&str; 2] = ["channel-0", "channel-1"];
pub const CURRENCY_PAIRS: [&str; 3] = ["BTC/USD", "ETH/USD", "TIA/USD"];
/// BTC/USD and ETH/USD are markets of the Aspen genesis; the others are not
pub const MARKET_PAIRS: [&str; 4] = ["BTC/USD", "ETH/USD", "TIA/USD", "FOO/BAR"];
pub const REMOTE_CHANNELS: [&str; 2] = ["channel-10", "channel-11"];

// ---------------------------------------------------------------------------------------------
// abstract operations
// ---------------------------------------------------------------------------------------------

#[derive(Clone, Debug, Serialize, Deserialize, PartialEq, Eq)]
pub enum Who {
    /// the authority appropriate for the first action (owner, sudo, withdrawer, ...)
    Auto,
    Key(u8),
    Sudo,
    IbcSudo,
    BridgeSudoOf(u8),
    WithdrawerOf(u8),
    /// the bridge account of that slot signing for itself
    BridgeItself(u8),
}

#[derive(Clone, Debug, Serialize, Deserialize, PartialEq, Eq)]
pub enum Amt {
    Zero,
    One,
    Small(u16),
    /// n/256 of the source balance
    Frac(u8),
    All,
    AllPlusOne,
    Max,
    Exact(U128),
}

#[derive(Clone, Debug, Serialize, Deserialize, PartialEq, Eq)]
pub enum NonceMode {
    Correct,
    Stale(u8),
    Gap(u8),
    /// re-submit the bytes of an earlier built transaction (selector into the list so far)
    ReplayOf(u16),
}

#[derive(Clone, Debug, Serialize, Deserialize, PartialEq, Eq)]
pub enum AAction {
    Transfer { to: u8, asset: u8, amt: Amt, fee: u8 },
    Rollup { rollup: u8, len: u16, fee: u8 },
    BridgeLock { bridge: u8, matching_asset: bool, asset: u8, amt: Amt, fee: u8, dest_len: u8 },
    BridgeUnlock { bridge: u8, to: u8, amt: Amt, fee: u8, event: u8, block_no: u8 },
    BridgeTransfer { from: u8, to: u8, amt: Amt, fee: u8, event: u8 },
    Ics20Withdrawal {
        from_bridge: Option<u8>,
        asset: u8,
        amt: Amt,
        channel: u8,
        fee: u8,
        event: u8,
        timeout_ok: bool,
        /// where a refund goes: 0 = back to the account the funds came from, k = to key k - 1
        /// (which may be another bridge account holding another asset)
        #[serde(default)]
        ret: u8,
    },
    InitBridge { rollup: u8, asset: u8, sudo: Option<u8>, withdrawer: Option<u8>, fee: u8 },
    BridgeSudoChange { bridge: u8, new_sudo: Option<u8>, new_withdrawer: Option<u8>, disable: bool, fee: u8 },
    SudoChange { new: u8 },
    IbcSudoChange { new: u8 },
    IbcRelayerChange { add: bool, who: u8 },
    FeeAssetChange { add: bool, asset: u8 },
    FeeChange { row: u8, base: U128, mult: U128 },
    ValidatorUpdate { key: u8, power: u32 },
    CurrencyPairsChange { add: bool, pair: u8 },
    /// a rollup data submission large enough to matter for the block size limits
    BigRollup { rollup: u8, len: u32, fee: u8 },
    /// an `IbcRelay` action that passes construction for an IBC relayer but cannot be applied
    /// (client upgrade with empty proofs; `client` selects an existing or a missing client):
    /// fatal before Blackburn, a "failed but included" transaction after it
    BadIbcRelay { client: u8 },
    /// create (0) / update (1) / remove (2) a market of the oracle market map
    MarketsChange { kind: u8, pair: u8 },
}

#[derive(Clone, Debug, Serialize, Deserialize, PartialEq, Eq)]
pub struct ATx {
    pub signer: Who,
    /// default owner for `Who::Auto` when the first action is a plain user action
    pub from: u8,
    pub nonce: NonceMode,
    pub actions: Vec<AAction>,
}

#[derive(Clone, Debug, Serialize, Deserialize, PartialEq, Eq)]
pub enum Receiver {
    Key(u8),
    KeyCompat(u8),
    WrongPrefix(u8),
    Garbage,
}

#[derive(Clone, Debug, Serialize, Deserialize, PartialEq, Eq)]
pub enum Memo {
    Empty,
    Deposit,
    DepositEmptyAddress,
    DepositLongAddress,
    Invalid,
}

#[derive(Clone, Debug, Serialize, Deserialize, PartialEq, Eq)]
pub enum PacketAmt {
    One,
    Small(u16),
    /// relative to what is escrowed for the asset on the channel: -1, 0, +1
    EscrowMinusOne,
    Escrow,
    EscrowPlusOne,
    Max,
    NotANumber,
}

#[derive(Clone, Debug, Serialize, Deserialize, PartialEq, Eq)]
pub enum AOp {
    Tx(ATx),
    /// an incoming ICS-20 packet on one of our channels
    IbcRecv {
        channel: u8,
        asset: u8,
        /// present the denom as seen by the counterparty (`true`) or mangled
        well_formed_denom: bool,
        amt: PacketAmt,
        receiver: Receiver,
        memo: Memo,
    },
    /// acknowledgement (success or error) of an earlier successful withdrawal (selector)
    IbcAck { of: u16, success: bool },
    IbcTimeout { of: u16 },
}

#[derive(Clone, Debug, Serialize, Deserialize)]
pub struct History {
    pub genesis: GenesisSpec,
    pub blocks: Vec<Vec<AOp>>,
}

// ---------------------------------------------------------------------------------------------
// strategies
// ---------------------------------------------------------------------------------------------

/// Relative weights of the generator; every property check supplies its own.
#[derive(Clone, Debug)]
pub struct Bias {
    /// weight of oracle currency-pair changes inside bundleable sudo transactions
    pub currency_pairs: u32,
    pub transfer: u32,
    pub rollup: u32,
    pub bridge: u32,
    pub ics20: u32,
    pub bridge_admin: u32,
    pub sudo: u32,
    pub validator: u32,
    pub ibc_in: u32,
    /// percent of transactions with an explicitly chosen (often wrong) signer
    pub wrong_signer_pct: u32,
    /// percent of transactions with a non-correct nonce mode
    pub bad_nonce_pct: u32,
    pub max_blocks: usize,
    pub max_ops: usize,
    pub max_actions: usize,
    pub bridge_genesis_pct: u32,
}

impl Default for Bias {
    fn default() -> Self {
        Self {
            currency_pairs: 0,
            transfer: 10,
            rollup: 5,
            bridge: 8,
            ics20: 3,
            bridge_admin: 3,
            sudo: 4,
            validator: 2,
            ibc_in: 2,
            wrong_signer_pct: 20,
            bad_nonce_pct: 10,
            max_blocks: 6,
            max_ops: 7,
            max_actions: 4,
            bridge_genesis_pct: 70,
        }
    }
}

pub fn amt() -> BoxedStrategy<Amt> {
    prop_oneof![
        1 => Just(Amt::Zero),
        3 => Just(Amt::One),
        8 => (1_u16..2000).prop_map(Amt::Small),
        6 => any::<u8>().prop_map(Amt::Frac),
        2 => Just(Amt::All),
        2 => Just(Amt::AllPlusOne),
        1 => Just(Amt::Max),
        1 => vcommon::gen::amount_u128().prop_map(|v| Amt::Exact(U128(v))),
    ]
    .boxed()
}

fn key() -> impl Strategy<Value = u8> {
    0_u8..N_KEYS as u8
}

fn slot() -> impl Strategy<Value = u8> {
    0_u8..BRIDGE_SLOTS.len() as u8
}

fn asset() -> impl Strategy<Value = u8> {
    prop_oneof![3 => Just(0_u8), 2 => 1_u8..N_ASSETS as u8]
}

/// fee asset selector: `< 200` picks among the currently allowed fee assets, `>= 200` names an
/// arbitrary asset (`sel % N_ASSETS`), allowed or not
fn fee_asset() -> impl Strategy<Value = u8> {
    prop_oneof![12 => 0_u8..200, 1 => 200_u8..=255]
}

fn event() -> impl Strategy<Value = u8> {
    0_u8..EVENT_IDS.len() as u8
}

fn general_action(bias: &Bias) -> BoxedStrategy<AAction> {
    let mut choices: Vec<(u32, BoxedStrategy<AAction>)> = vec![
        (
            bias.transfer,
            (key(), asset(), amt(), fee_asset())
                .prop_map(|(to, asset, amt, fee)| AAction::Transfer {
                    to,
                    asset,
                    amt,
                    fee,
                })
                .boxed(),
        ),
        (
            bias.rollup,
            (
                0_u8..N_ROLLUPS as u8,
                prop_oneof![1 => Just(0_u16), 12 => 1_u16..64, 4 => 64_u16..2000],
                fee_asset(),
            )
                .prop_map(|(rollup, len, fee)| AAction::Rollup {
                    rollup,
                    len,
                    fee,
                })
                .boxed(),
        ),
        (
            bias.bridge,
            prop_oneof![
                (slot(), prop::bool::weighted(0.85), asset(), amt(), fee_asset(), 0_u8..40).prop_map(
                    |(bridge, matching_asset, asset, amt, fee, dest_len)| AAction::BridgeLock {
                        bridge,
                        matching_asset,
                        asset,
                        amt,
                        fee,
                        dest_len,
                    }
                ),
                (slot(), key(), amt(), fee_asset(), event(), prop_oneof![1 => Just(0_u8), 12 => 1_u8..4]).prop_map(
                    |(bridge, to, amt, fee, event, block_no)| AAction::BridgeUnlock {
                        bridge,
                        to,
                        amt,
                        fee,
                        event,
                        block_no,
                    }
                ),
                (slot(), slot(), amt(), fee_asset(), event()).prop_map(
                    |(from, to, amt, fee, event)| AAction::BridgeTransfer {
                        from,
                        to,
                        amt,
                        fee,
                        event,
                    }
                ),
            ]
            .boxed(),
        ),
        (
            bias.ics20,
            (
                proptest::option::weighted(0.5, slot()),
                asset(),
                amt(),
                0_u8..2,
                fee_asset(),
                event(),
                prop::bool::weighted(0.9),
                prop_oneof![4 => Just(0_u8), 1 => 1_u8..=N_KEYS as u8],
            )
                .prop_map(
                    |(from_bridge, asset, amt, channel, fee, event, timeout_ok, ret)| {
                        AAction::Ics20Withdrawal {
                            from_bridge,
                            asset,
                            amt,
                            channel,
                            fee,
                            event,
                            timeout_ok,
                            ret,
                        }
                    },
                )
                .boxed(),
        ),
        (
            bias.validator,
            (
                0_u8..N_VALIDATOR_KEYS as u8,
                prop_oneof![3 => Just(0_u32), 2 => Just(1_u32), 2 => Just(5_u32), 1 => Just(1_u32 << 31)],
            )
                .prop_map(|(key, power)| AAction::ValidatorUpdate {
                    key,
                    power,
                })
                .boxed(),
        ),
    ];
    choices.retain(|(w, _)| *w > 0);
    proptest::strategy::Union::new_weighted(choices).boxed()
}

fn bridge_admin_action() -> BoxedStrategy<AAction> {
    prop_oneof![
        (
            0_u8..N_ROLLUPS as u8,
            asset(),
            proptest::option::of(key()),
            proptest::option::of(key()),
            fee_asset()
        )
            .prop_map(|(rollup, asset, sudo, withdrawer, fee)| AAction::InitBridge {
                rollup,
                asset,
                sudo,
                withdrawer,
                fee,
            }),
        (
            slot(),
            proptest::option::of(key()),
            proptest::option::of(key()),
            prop::bool::weighted(0.3),
            fee_asset()
        )
            .prop_map(
                |(bridge, new_sudo, new_withdrawer, disable, fee)| AAction::BridgeSudoChange {
                    bridge,
                    new_sudo,
                    new_withdrawer,
                    disable,
                    fee,
                }
            ),
    ]
    .boxed()
}

fn sudo_bundleable_action(bias: &Bias) -> BoxedStrategy<AAction> {
    let mut choices: Vec<(u32, BoxedStrategy<AAction>)> = vec![
        (
            2,
            (any::<bool>(), key())
                .prop_map(|(add, who)| AAction::IbcRelayerChange { add, who })
                .boxed(),
        ),
        (
            3,
            (any::<bool>(), 0_u8..N_ASSETS as u8)
                .prop_map(|(add, asset)| AAction::FeeAssetChange { add, asset })
                .boxed(),
        ),
        (
            4,
            (0_u8..18, world::fee_pair())
                .prop_map(|(row, pair)| {
                    let (base, mult) = pair.unwrap_or((U128(0), U128(0)));
                    AAction::FeeChange { row, base, mult }
                })
                .boxed(),
        ),
        (
            bias.currency_pairs,
            (prop::bool::weighted(0.4), 0_u8..CURRENCY_PAIRS.len() as u8)
                .prop_map(|(add, pair)| AAction::CurrencyPairsChange { add, pair })
                .boxed(),
        ),
        (
            bias.currency_pairs.div_ceil(2),
            (0_u8..3, 0_u8..MARKET_PAIRS.len() as u8)
                .prop_map(|(kind, pair)| AAction::MarketsChange { kind, pair })
                .boxed(),
        ),
    ];
    choices.retain(|(w, _)| *w > 0);
    proptest::strategy::Union::new_weighted(choices).boxed()
}

fn sudo_unbundleable_action() -> BoxedStrategy<AAction> {
    prop_oneof![
        key().prop_map(|new| AAction::SudoChange { new }),
        key().prop_map(|new| AAction::IbcSudoChange { new }),
    ]
    .boxed()
}

pub fn atx(bias: &Bias) -> BoxedStrategy<ATx> {
    let general = (
        proptest::collection::vec(general_action(bias), 1..=bias.max_actions),
        prop::bool::weighted(0.07),
        any::<u8>(),
    )
        .prop_map(|(mut actions, with_relay, sel)| {
            if with_relay {
                let at = if sel % 4 == 0 {
                    sel as usize % (actions.len() + 1)
                } else {
                    actions.len()
                };
                actions.insert(
                    at,
                    AAction::BadIbcRelay {
                        client: sel / 4,
                    },
                );
            }
            actions
        });
    let admin = bridge_admin_action().prop_map(|a| vec![a]);
    let sudo_b = proptest::collection::vec(sudo_bundleable_action(bias), 1..=3);
    let sudo_u = sudo_unbundleable_action().prop_map(|a| vec![a]);
    let general_w = bias.transfer + bias.rollup + bias.bridge + bias.ics20 + bias.validator;
    let actions = proptest::strategy::Union::new_weighted(
        vec![
            (general_w.max(1), general.boxed()),
            (bias.bridge_admin, admin.boxed()),
            (bias.sudo, sudo_b.boxed()),
            (bias.sudo / 2, sudo_u.boxed()),
        ]
        .into_iter()
        .filter(|(w, _)| *w > 0)
        .collect::<Vec<_>>(),
    );
    let wrong = bias.wrong_signer_pct;
    let signer = prop_oneof![
        100 - wrong => Just(Who::Auto),
        wrong / 2 + 1 => key().prop_map(Who::Key),
        wrong / 8 + 1 => Just(Who::Sudo),
        wrong / 8 + 1 => Just(Who::IbcSudo),
        wrong / 8 + 1 => slot().prop_map(Who::BridgeSudoOf),
        wrong / 8 + 1 => slot().prop_map(Who::WithdrawerOf),
        wrong / 8 + 1 => slot().prop_map(Who::BridgeItself),
    ];
    let bad = bias.bad_nonce_pct;
    let nonce = prop_oneof![
        100 - bad => Just(NonceMode::Correct),
        bad / 3 + 1 => (1_u8..3).prop_map(NonceMode::Stale),
        bad / 3 + 1 => (1_u8..3).prop_map(NonceMode::Gap),
        bad / 3 + 1 => any::<u16>().prop_map(NonceMode::ReplayOf),
    ];
    (signer, key(), nonce, actions)
        .prop_map(|(signer, from, nonce, actions)| ATx {
            signer,
            from,
            nonce,
            actions,
        })
        .boxed()
}

pub fn ibc_in_op() -> BoxedStrategy<AOp> {
    let receiver = prop_oneof![
        10 => key().prop_map(Receiver::Key),
        2 => key().prop_map(Receiver::KeyCompat),
        1 => key().prop_map(Receiver::WrongPrefix),
        1 => Just(Receiver::Garbage),
    ];
    let memo = prop_oneof![
        5 => Just(Memo::Empty),
        6 => Just(Memo::Deposit),
        1 => Just(Memo::DepositEmptyAddress),
        1 => Just(Memo::DepositLongAddress),
        1 => Just(Memo::Invalid),
    ];
    let packet_amt = prop_oneof![
        2 => Just(PacketAmt::One),
        6 => (1_u16..5000).prop_map(PacketAmt::Small),
        2 => Just(PacketAmt::EscrowMinusOne),
        3 => Just(PacketAmt::Escrow),
        3 => Just(PacketAmt::EscrowPlusOne),
        1 => Just(PacketAmt::Max),
        1 => Just(PacketAmt::NotANumber),
    ];
    prop_oneof![
        6 => (0_u8..2, 0_u8..N_ASSETS as u8, prop::bool::weighted(0.95), packet_amt, receiver, memo)
            .prop_map(|(channel, asset, well_formed_denom, amt, receiver, memo)| AOp::IbcRecv {
                channel,
                asset,
                well_formed_denom,
                amt,
                receiver,
                memo,
            }),
        3 => (any::<u16>(), prop::bool::weighted(0.4)).prop_map(|(of, success)| AOp::IbcAck { of, success }),
        2 => any::<u16>().prop_map(|of| AOp::IbcTimeout { of }),
    ]
    .boxed()
}

pub fn history(bias: Bias) -> BoxedStrategy<History> {
    let tx_w = bias.transfer
        + bias.rollup
        + bias.bridge
        + bias.ics20
        + bias.validator
        + bias.bridge_admin
        + bias.sudo;
    let op = if bias.ibc_in == 0 {
        atx(&bias).prop_map(AOp::Tx).boxed()
    } else {
        prop_oneof![
            tx_w => atx(&bias).prop_map(AOp::Tx),
            bias.ibc_in => ibc_in_op(),
        ]
        .boxed()
    };
    (
        world::genesis_spec(bias.bridge_genesis_pct),
        proptest::collection::vec(
            proptest::collection::vec(op, 0..=bias.max_ops),
            1..=bias.max_blocks,
        ),
    )
        .prop_map(|(genesis, blocks)| History {
            genesis,
            blocks,
        })
        .boxed()
}

/// Structurally simpler variants of a history: without one block, one operation or one action.
pub fn simplify(history: &History) -> Vec<History> {
    let mut out = Vec::new();
    for b in (0..history.blocks.len()).rev() {
        if history.blocks.len() > 1 {
            let mut h = history.clone();
            h.blocks.remove(b);
            out.push(h);
        }
    }
    for b in (0..history.blocks.len()).rev() {
        for o in (0..history.blocks[b].len()).rev() {
            let mut h = history.clone();
            h.blocks[b].remove(o);
            out.push(h);
        }
    }
    for b in 0..history.blocks.len() {
        for o in 0..history.blocks[b].len() {
            if let AOp::Tx(tx) = &history.blocks[b][o] {
                if tx.actions.len() > 1 {
                    for a in (0..tx.actions.len()).rev() {
                        let mut h = history.clone();
                        if let AOp::Tx(t) = &mut h.blocks[b][o] {
                            t.actions.remove(a);
                        }
                        out.push(h);
                    }
                }
            }
        }
    }
    out
}

pub fn simplifier() -> vcommon::Simplifier<History> {
    Box::new(simplify)
}

// ---------------------------------------------------------------------------------------------
// observed state used for late binding and by the oracles
// ---------------------------------------------------------------------------------------------

#[derive(Clone, Debug)]
pub struct View {
    pub sudo: [u8; 20],
    pub ibc_sudo: [u8; 20],
    pub relayers: Vec<bool>,
    /// per key: bridge account info if that key's address is a bridge account
    pub bridges: Vec<Option<BridgeAccount>>,
    pub fee_table: BTreeMap<&'static str, Option<(u128, u128)>>,
    pub fee_assets: BTreeSet<String>,
    pub post_blackburn_bridge_disable: bool,
}

impl View {
    pub async fn read<S: cnidarium::StateRead>(state: &S) -> View {
        let w = &*WORLD;
        let mut bridges = Vec::new();
        let mut relayers = Vec::new();
        for k in 0..N_KEYS {
            bridges.push(
                verif::read::bridge_account(state, &w.addr_bytes(k))
                    .await
                    .expect("bridge account"),
            );
            relayers.push(
                verif::read::is_ibc_relayer(state, &w.addr_bytes(k))
                    .await
                    .expect("relayer"),
            );
        }
        View {
            sudo: verif::read::sudo_address(state).await.expect("sudo"),
            ibc_sudo: verif::read::ibc_sudo_address(state).await.expect("ibc sudo"),
            relayers,
            bridges,
            fee_table: verif::read::fee_table(state)
                .await
                .expect("fee table")
                .into_iter()
                .collect(),
            fee_assets: verif::read::allowed_fee_assets(state)
                .await
                .expect("fee assets")
                .into_iter()
                .map(|a| a.to_string())
                .collect(),
            post_blackburn_bridge_disable: verif::read::upgrade_change_applied(
                state,
                "blackburn",
                "disableable_bridge_account_deposits",
            )
            .await
            .unwrap_or(false),
        }
    }

    pub fn bridge_of_slot(&self, slot: u8) -> Option<&BridgeAccount> {
        self.bridges[WORLD.bridge_key(slot as usize)].as_ref()
    }

    pub fn bridge_at(&self, address: &[u8; 20]) -> Option<&BridgeAccount> {
        WORLD.key_of(address).and_then(|k| self.bridges[k].as_ref())
    }
}

/// What a concrete action is expected to move, computed from the action alone (reference model).
#[derive(Clone, Debug, Default)]
pub struct Effects {
    /// (account, asset ibc text) -> signed delta
    pub balance: BTreeMap<([u8; 20], String), i128w::I>,
    /// (channel, asset ibc text) -> signed delta
    pub escrow: BTreeMap<(String, String), i128w::I>,
}

pub mod i128w {
    //! arbitrary precision signed integers (amounts go up to u128::MAX, sums beyond)
    pub type I = num_bigint::BigInt;
    pub fn u(v: u128) -> I {
        I::from(v)
    }
}

#[derive(Clone, Debug)]
pub struct BuiltTx {
    pub signer_key: usize,
    pub signer: [u8; 20],
    pub nonce: u32,
    pub actions: Vec<Action>,
    pub abstract_actions: Vec<AAction>,
    pub bytes: Bytes,
    pub id: [u8; 32],
    pub is_replay: bool,
}

pub fn event_id(sel: u8) -> String {
    EVENT_IDS[sel as usize % EVENT_IDS.len()].to_string()
}

fn resolve_amt(amt: &Amt, balance: u128) -> u128 {
    match amt {
        Amt::Zero => 0,
        Amt::One => 1,
        Amt::Small(v) => u128::from(*v),
        Amt::Frac(n) => {
            // balance * n / 256 without overflow
            (balance >> 8) * u128::from(*n) + (((balance & 0xff) * u128::from(*n)) >> 8)
        }
        Amt::All => balance,
        Amt::AllPlusOne => balance.saturating_add(1),
        Amt::Max => u128::MAX,
        Amt::Exact(v) => v.0,
    }
}

fn group_of(a: &AAction) -> u8 {
    match a {
        AAction::SudoChange { .. } | AAction::IbcSudoChange { .. } => 1,
        AAction::IbcRelayerChange { .. }
        | AAction::FeeAssetChange { .. }
        | AAction::FeeChange { .. }
        | AAction::CurrencyPairsChange { .. }
        | AAction::MarketsChange { .. } => 2,
        AAction::InitBridge { .. } | AAction::BridgeSudoChange { .. } => 3,
        _ => 4,
    }
}

pub fn fee_change(row: u8, base: u128, mult: u128) -> FeeChange {
    match row % 18 {
        0 => FeeChange::Transfer(FeeComponents::new(base, mult)),
        1 => FeeChange::RollupDataSubmission(FeeComponents::new(base, mult)),
        2 => FeeChange::Ics20Withdrawal(FeeComponents::new(base, mult)),
        3 => FeeChange::InitBridgeAccount(FeeComponents::new(base, mult)),
        4 => FeeChange::BridgeLock(FeeComponents::new(base, mult)),
        5 => FeeChange::BridgeUnlock(FeeComponents::new(base, mult)),
        6 => FeeChange::BridgeSudoChange(FeeComponents::new(base, mult)),
        7 => FeeChange::BridgeTransfer(FeeComponents::new(base, mult)),
        8 => FeeChange::IbcRelay(FeeComponents::new(base, mult)),
        9 => FeeChange::ValidatorUpdate(FeeComponents::new(base, mult)),
        10 => FeeChange::FeeAssetChange(FeeComponents::new(base, mult)),
        11 => FeeChange::FeeChange(FeeComponents::new(base, mult)),
        12 => FeeChange::IbcRelayerChange(FeeComponents::new(base, mult)),
        13 => FeeChange::SudoAddressChange(FeeComponents::new(base, mult)),
        14 => FeeChange::IbcSudoChange(FeeComponents::new(base, mult)),
        15 => FeeChange::RecoverIbcClient(FeeComponents::new(base, mult)),
        16 => FeeChange::CurrencyPairsChange(FeeComponents::new(base, mult)),
        _ => FeeChange::MarketsChange(FeeComponents::new(base, mult)),
    }
}

/// `(fee table row, base, multiplier)` a `FeeChange` action sets.
pub fn fee_change_parts(change: &FeeChange) -> (&'static str, u128, u128) {
    macro_rules! parts {
        ($($variant:ident => $row:expr),* $(,)?) => {
            match change {
                $(FeeChange::$variant(c) => ($row, c.base(), c.multiplier()),)*
            }
        };
    }
    parts!(
        Transfer => "transfer",
        RollupDataSubmission => "rollup_data_submission",
        Ics20Withdrawal => "ics20_withdrawal",
        InitBridgeAccount => "init_bridge_account",
        BridgeLock => "bridge_lock",
        BridgeUnlock => "bridge_unlock",
        BridgeSudoChange => "bridge_sudo_change",
        BridgeTransfer => "bridge_transfer",
        IbcRelay => "ibc_relay",
        ValidatorUpdate => "validator_update",
        FeeAssetChange => "fee_asset_change",
        FeeChange => "fee_change",
        IbcRelayerChange => "ibc_relayer_change",
        SudoAddressChange => "sudo_address_change",
        IbcSudoChange => "ibc_sudo_change",
        RecoverIbcClient => "recover_ibc_client",
        CurrencyPairsChange => "currency_pairs_change",
        MarketsChange => "markets_change",
    )
}

pub fn withdrawal_memo(event: &str) -> String {
    serde_json::to_string(&Ics20WithdrawalFromRollup {
        rollup_block_number: 7,
        rollup_withdrawal_event_id: event.to_string(),
        rollup_return_address: "rollup-return-addr".to_string(),
        memo: String::new(),
    })
    .unwrap()
}

/// Binds an abstract transaction to the observed state. Returns `None` if nothing buildable
/// remains (counted as a no-op by the interpreter).
///
/// With `Who::Auto` the binder aims for a *valid* transaction: the signer is the authority the
/// first action needs, actions the signer cannot authorise are dropped or retargeted, relative
/// amounts are resolved against a running balance, and fee assets are taken from the allowed
/// set. With an explicit signer nothing is repaired (these are the wrong-authority attempts).
pub fn concretize(atx: &ATx, view: &View, pre: &Dump, built_so_far: &[BuiltTx], height: u64) -> Option<BuiltTx> {
    let w = &*WORLD;
    if let NonceMode::ReplayOf(sel) = &atx.nonce {
        if built_so_far.is_empty() {
            return None;
        }
        let original = &built_so_far[vcommon::gen::pick_index(*sel, built_so_far.len())];
        let mut replay = original.clone();
        replay.is_replay = true;
        return Some(replay);
    }
    // keep only the actions of the first action's group (unbundleable groups: one action)
    let first = atx.actions.first()?;
    let group = group_of(first);
    let mut abstract_actions: Vec<AAction> = atx
        .actions
        .iter()
        .filter(|a| group_of(a) == group)
        .cloned()
        .collect();
    if group == 1 || group == 3 {
        abstract_actions.truncate(1);
    }
    let repair = atx.signer == Who::Auto;
    let key_of = |address: &[u8; 20]| w.key_of(address);
    let existing_slots: Vec<u8> = (0..BRIDGE_SLOTS.len() as u8)
        .filter(|s| view.bridge_of_slot(*s).is_some())
        .collect();
    // with repair on, an action naming a slot that is not a bridge is retargeted to one that is
    let fix_slot = |slot: u8| -> u8 {
        if repair && view.bridge_of_slot(slot).is_none() && !existing_slots.is_empty() {
            existing_slots[slot as usize % existing_slots.len()]
        } else {
            slot % BRIDGE_SLOTS.len() as u8
        }
    };
    let auto = || -> usize {
        if atx.actions.iter().any(|a| matches!(a, AAction::BadIbcRelay { .. })) {
            let from = atx.from as usize % N_KEYS;
            let relayers = || (0..N_KEYS).map(|i| (from + i) % N_KEYS).filter(|k| view.relayers[*k]);
            if let Some(k) = relayers().find(|k| view.bridges[*k].is_none()).or_else(|| relayers().next()) {
                return k;
            }
        }
        match first {
            AAction::BridgeUnlock { bridge, .. }
            | AAction::BridgeTransfer { from: bridge, .. }
            | AAction::Ics20Withdrawal { from_bridge: Some(bridge), .. } => view
                .bridge_of_slot(fix_slot(*bridge))
                .and_then(|b| b.withdrawer.as_ref().and_then(key_of))
                .unwrap_or(atx.from as usize % N_KEYS),
            AAction::InitBridge { .. } => {
                // prefer a slot that is not a bridge yet
                (0..BRIDGE_SLOTS.len())
                    .map(|s| (s + atx.from as usize) % BRIDGE_SLOTS.len())
                    .find(|s| view.bridge_of_slot(*s as u8).is_none())
                    .map_or(w.bridge_key(atx.from as usize), |s| w.bridge_key(s))
            }
            AAction::BridgeSudoChange { bridge, .. } => view
                .bridge_of_slot(fix_slot(*bridge))
                .and_then(|b| b.sudo.as_ref().and_then(key_of))
                .unwrap_or(atx.from as usize % N_KEYS),
            AAction::SudoChange { .. }
            | AAction::IbcSudoChange { .. }
            | AAction::FeeAssetChange { .. }
            | AAction::FeeChange { .. }
            | AAction::CurrencyPairsChange { .. }
            | AAction::MarketsChange { .. }
            | AAction::ValidatorUpdate { .. } => key_of(&view.sudo).unwrap_or(0),
            AAction::IbcRelayerChange { .. } => key_of(&view.ibc_sudo).unwrap_or(0),
            _ => {
                // a plain user action: an account that is not a bridge account and owns some of
                // the native asset, if there is one
                let from = atx.from as usize % N_KEYS;
                let native = w.asset_ibc(0).to_string();
                let funded = |k: &usize| {
                    pre.balances.get(&(w.addr_bytes(*k), native.clone())).copied().unwrap_or(0) > 0
                };
                let candidates = || (0..N_KEYS).map(|i| (from + i) % N_KEYS).filter(|k| view.bridges[*k].is_none());
                candidates()
                    .find(funded)
                    .or_else(|| candidates().next())
                    .unwrap_or(from)
            }
        }
    };
    let signer_key = match &atx.signer {
        Who::Auto => auto(),
        Who::Key(k) => *k as usize % N_KEYS,
        Who::Sudo => key_of(&view.sudo).unwrap_or(0),
        Who::IbcSudo => key_of(&view.ibc_sudo).unwrap_or(0),
        Who::BridgeSudoOf(s) => view
            .bridge_of_slot(*s)
            .and_then(|b| b.sudo.as_ref().and_then(key_of))
            .unwrap_or(*s as usize % N_KEYS),
        Who::WithdrawerOf(s) => view
            .bridge_of_slot(*s)
            .and_then(|b| b.withdrawer.as_ref().and_then(key_of))
            .unwrap_or(*s as usize % N_KEYS),
        Who::BridgeItself(s) => w.bridge_key(*s as usize),
    };
    let signer = w.addr_bytes(signer_key);
    let signer_is_bridge = view.bridges[signer_key].is_some();
    // running balances so that relative amounts of later actions see earlier ones
    let mut avail: BTreeMap<([u8; 20], usize), u128> = BTreeMap::new();
    for k in 0..N_KEYS {
        for a in 0..N_ASSETS {
            let account = w.addr_bytes(k);
            let balance = pre
                .balances
                .get(&(account, w.asset_ibc(a).to_string()))
                .copied()
                .unwrap_or(0);
            avail.insert((account, a), balance);
        }
    }
    let allowed: Vec<usize> = (0..N_ASSETS)
        .filter(|a| view.fee_assets.contains(&w.asset_ibc(*a).to_string()))
        .collect();
    let signer_balance = |asset: usize| -> u128 {
        pre.balances
            .get(&(signer, w.asset_ibc(asset).to_string()))
            .copied()
            .unwrap_or(0)
    };
    let pick_fee_asset = |sel: u8| -> usize {
        if sel < 200 && !allowed.is_empty() {
            let start = vcommon::gen::pick_index(u16::from(sel) * 327, allowed.len());
            if repair {
                // prefer an allowed fee asset the signer actually owns
                if let Some(i) = (0..allowed.len())
                    .map(|i| allowed[(start + i) % allowed.len()])
                    .find(|a| signer_balance(*a) > 0)
                {
                    return i;
                }
            }
            allowed[start]
        } else {
            sel as usize % N_ASSETS
        }
    };
    // spend `amount` (+ the fee) from the running balances
    fn take(avail: &mut BTreeMap<([u8; 20], usize), u128>, account: [u8; 20], asset: usize, amount: u128) {
        let e = avail.entry((account, asset)).or_default();
        *e = e.saturating_sub(amount);
    }
    fn give(avail: &mut BTreeMap<([u8; 20], usize), u128>, account: [u8; 20], asset: usize, amount: u128) {
        let e = avail.entry((account, asset)).or_default();
        *e = e.saturating_add(amount);
    }
    let mut actions = Vec::new();
    let mut kept = Vec::new();
    for a in &abstract_actions {
        // charge the fee first (as the app does) so relative amounts stay affordable
        let charge_fee = |avail: &mut BTreeMap<([u8; 20], usize), u128>, row: &str, size: u128, fee_idx: usize| {
            if let Some(Some((base, mult))) = view.fee_table.get(row) {
                let fee = base.saturating_add(mult.saturating_mul(size));
                take(avail, signer, fee_idx, fee);
            }
        };
        let action = match a {
            AAction::Transfer { to, asset, amt, fee } => {
                if repair && signer_is_bridge {
                    continue;
                }
                let asset_idx = *asset as usize % N_ASSETS;
                let fee_idx = pick_fee_asset(*fee);
                charge_fee(&mut avail, "transfer", 0, fee_idx);
                let amount = resolve_amt(amt, avail[&(signer, asset_idx)]);
                take(&mut avail, signer, asset_idx, amount);
                give(&mut avail, w.addr_bytes(*to as usize), asset_idx, amount);
                Action::Transfer(Transfer {
                    to: w.addr(*to as usize),
                    amount,
                    asset: w.asset(asset_idx).clone(),
                    fee_asset: w.asset(fee_idx).clone(),
                })
            }
            AAction::Rollup { rollup, len, fee } => {
                let fee_idx = pick_fee_asset(*fee);
                charge_fee(&mut avail, "rollup_data_submission", u128::from(*len), fee_idx);
                Action::RollupDataSubmission(RollupDataSubmission {
                    rollup_id: w.rollups[*rollup as usize % N_ROLLUPS],
                    data: Bytes::from(
                        (0..*len).map(|i| (i as u8).wrapping_mul(31).wrapping_add(*rollup)).collect::<Vec<u8>>(),
                    ),
                    fee_asset: w.asset(fee_idx).clone(),
                })
            }
            AAction::BigRollup { rollup, len, fee } => {
                let fee_idx = pick_fee_asset(*fee);
                charge_fee(&mut avail, "rollup_data_submission", u128::from(*len), fee_idx);
                Action::RollupDataSubmission(RollupDataSubmission {
                    rollup_id: w.rollups[*rollup as usize % N_ROLLUPS],
                    data: Bytes::from(vec![0x5a_u8.wrapping_add(*rollup); *len as usize]),
                    fee_asset: w.asset(fee_idx).clone(),
                })
            }
            AAction::BridgeLock { bridge, matching_asset, asset, amt, fee, dest_len } => {
                if repair && (signer_is_bridge || existing_slots.is_empty()) {
                    continue;
                }
                let bridge = fix_slot(*bridge);
                let bridge_addr = w.addr_bytes(w.bridge_key(bridge as usize));
                let asset_idx = match (matching_asset, view.bridge_of_slot(bridge)) {
                    (true, Some(b)) => w.asset_index(&b.asset).unwrap_or(*asset as usize % N_ASSETS),
                    _ => *asset as usize % N_ASSETS,
                };
                let fee_idx = pick_fee_asset(*fee);
                let dest = "d".repeat(*dest_len as usize + 1);
                charge_fee(
                    &mut avail,
                    "bridge_lock",
                    (w.asset(asset_idx).to_string().len() + dest.len() + 16) as u128,
                    fee_idx,
                );
                let amount = resolve_amt(amt, avail[&(signer, asset_idx)]);
                take(&mut avail, signer, asset_idx, amount);
                give(&mut avail, bridge_addr, asset_idx, amount);
                Action::BridgeLock(BridgeLock {
                    to: world::address(&bridge_addr),
                    amount,
                    asset: w.asset(asset_idx).clone(),
                    fee_asset: w.asset(fee_idx).clone(),
                    destination_chain_address: dest,
                })
            }
            AAction::BridgeUnlock { bridge, to, amt, fee, event, block_no } => {
                let mut bridge = fix_slot(*bridge);
                if repair {
                    // a bridge this signer may withdraw from, if any
                    match existing_slots.iter().map(|s| (*s + bridge) % BRIDGE_SLOTS.len() as u8).find(|s| {
                        view.bridge_of_slot(*s).is_some_and(|b| b.withdrawer == Some(signer))
                    }) {
                        Some(s) => bridge = s,
                        None => continue,
                    }
                }
                let bridge_addr = w.addr_bytes(w.bridge_key(bridge as usize));
                let asset_idx = view
                    .bridge_of_slot(bridge)
                    .and_then(|b| w.asset_index(&b.asset))
                    .unwrap_or(0);
                let mut to_key = *to as usize % N_KEYS;
                if repair && view.bridges[to_key].is_some() {
                    to_key = (0..N_KEYS).find(|k| view.bridges[*k].is_none()).unwrap_or(to_key);
                }
                let fee_idx = pick_fee_asset(*fee);
                charge_fee(&mut avail, "bridge_unlock", 0, fee_idx);
                let amount = resolve_amt(amt, avail[&(bridge_addr, asset_idx)]);
                take(&mut avail, bridge_addr, asset_idx, amount);
                give(&mut avail, w.addr_bytes(to_key), asset_idx, amount);
                Action::BridgeUnlock(BridgeUnlock {
                    to: w.addr(to_key),
                    amount,
                    fee_asset: w.asset(fee_idx).clone(),
                    bridge_address: world::address(&bridge_addr),
                    memo: String::new(),
                    rollup_block_number: u64::from(*block_no),
                    rollup_withdrawal_event_id: event_id(*event),
                })
            }
            AAction::BridgeTransfer { from, to, amt, fee, event } => {
                let mut from = fix_slot(*from);
                let mut to = fix_slot(*to);
                if repair {
                    match existing_slots.iter().map(|s| (*s + from) % BRIDGE_SLOTS.len() as u8).find(|s| {
                        view.bridge_of_slot(*s).is_some_and(|b| b.withdrawer == Some(signer))
                    }) {
                        Some(s) => from = s,
                        None => continue,
                    }
                    // destination bridge must hold the same asset
                    let from_asset = view.bridge_of_slot(from).map(|b| b.asset);
                    match existing_slots.iter().map(|s| (*s + to) % BRIDGE_SLOTS.len() as u8).find(|s| {
                        view.bridge_of_slot(*s).map(|b| b.asset) == from_asset
                    }) {
                        Some(s) => to = s,
                        None => continue,
                    }
                }
                let from_addr = w.addr_bytes(w.bridge_key(from as usize));
                let to_addr = w.addr_bytes(w.bridge_key(to as usize));
                let asset_idx = view
                    .bridge_of_slot(from)
                    .and_then(|b| w.asset_index(&b.asset))
                    .unwrap_or(0);
                let fee_idx = pick_fee_asset(*fee);
                charge_fee(&mut avail, "bridge_transfer", 0, fee_idx);
                let amount = resolve_amt(amt, avail[&(from_addr, asset_idx)]);
                take(&mut avail, from_addr, asset_idx, amount);
                give(&mut avail, to_addr, asset_idx, amount);
                Action::BridgeTransfer(BridgeTransfer {
                    to: world::address(&to_addr),
                    amount,
                    fee_asset: w.asset(fee_idx).clone(),
                    destination_chain_address: "rollup-dest".to_string(),
                    bridge_address: world::address(&from_addr),
                    rollup_block_number: 3,
                    rollup_withdrawal_event_id: event_id(*event),
                })
            }
            AAction::Ics20Withdrawal { from_bridge, asset, amt, channel, fee, event, timeout_ok, ret } => {
                let mut from_bridge = from_bridge.map(fix_slot);
                if repair {
                    match from_bridge {
                        Some(slot) => {
                            match existing_slots.iter().map(|s| (*s + slot) % BRIDGE_SLOTS.len() as u8).find(|s| {
                                view.bridge_of_slot(*s).is_some_and(|b| b.withdrawer == Some(signer))
                            }) {
                                Some(s) => from_bridge = Some(s),
                                None if signer_is_bridge => continue,
                                None => from_bridge = None,
                            }
                        }
                        None if signer_is_bridge => continue,
                        None => {}
                    }
                }
                let (source, bridge_address, memo, asset_idx) = match from_bridge {
                    Some(s) => {
                        let addr = w.addr_bytes(w.bridge_key(s as usize));
                        let asset_idx = view
                            .bridge_of_slot(s)
                            .and_then(|b| w.asset_index(&b.asset))
                            .unwrap_or(*asset as usize % N_ASSETS);
                        // when the withdrawer is the bridge account itself the field may be unset
                        let field = if addr == signer && *event % 2 == 0 {
                            None
                        } else {
                            Some(world::address(&addr))
                        };
                        (addr, field, withdrawal_memo(&event_id(*event)), asset_idx)
                    }
                    None => (signer, None, String::new(), *asset as usize % N_ASSETS),
                };
                let fee_idx = pick_fee_asset(*fee);
                charge_fee(&mut avail, "ics20_withdrawal", 0, fee_idx);
                let amount = resolve_amt(amt, avail[&(source, asset_idx)]);
                take(&mut avail, source, asset_idx, amount);
                Action::Ics20Withdrawal(Ics20Withdrawal {
                    amount,
                    denom: w.asset(asset_idx).clone(),
                    destination_chain_address: "cosmos1destination".to_string(),
                    return_address: if *ret == 0 {
                        world::address(&source)
                    } else {
                        w.addr((*ret as usize - 1) % N_KEYS)
                    },
                    timeout_height: IbcHeight::new(2, if *timeout_ok { 1_000_000 } else { 1 }).unwrap(),
                    timeout_time: if *timeout_ok {
                        ((T0 + 1_000_000) as u64) * 1_000_000_000
                    } else {
                        1
                    },
                    source_channel: CHANNELS[*channel as usize % 2].parse().unwrap(),
                    fee_asset: w.asset(fee_idx).clone(),
                    memo,
                    bridge_address,
                    use_compat_address: *event % 3 == 0,
                })
            }
            AAction::InitBridge { rollup, asset, sudo, withdrawer, fee } => {
                let fee_idx = pick_fee_asset(*fee);
                Action::InitBridgeAccount(InitBridgeAccount {
                    rollup_id: w.rollups[*rollup as usize % N_ROLLUPS],
                    asset: w.asset(*asset as usize).clone(),
                    fee_asset: w.asset(fee_idx).clone(),
                    sudo_address: sudo.map(|k| w.addr(k as usize)),
                    withdrawer_address: withdrawer.map(|k| w.addr(k as usize)),
                })
            }
            AAction::BridgeSudoChange { bridge, new_sudo, new_withdrawer, disable, fee } => {
                let bridge = fix_slot(*bridge);
                let fee_idx = pick_fee_asset(*fee);
                Action::BridgeSudoChange(BridgeSudoChange {
                    bridge_address: w.addr(w.bridge_key(bridge as usize)),
                    new_sudo_address: new_sudo.map(|k| w.addr(k as usize)),
                    new_withdrawer_address: new_withdrawer.map(|k| w.addr(k as usize)),
                    fee_asset: w.asset(fee_idx).clone(),
                    disable_deposits: *disable && (!repair || view.post_blackburn_bridge_disable),
                })
            }
            AAction::SudoChange { new } => Action::SudoAddressChange(SudoAddressChange {
                new_address: w.addr(*new as usize),
            }),
            AAction::IbcSudoChange { new } => Action::IbcSudoChange(IbcSudoChange {
                new_address: w.addr(*new as usize),
            }),
            AAction::IbcRelayerChange { add, who } => {
                if repair && signer != view.ibc_sudo {
                    continue;
                }
                let is_relayer = view.relayers[*who as usize % N_KEYS];
                let add = if repair { !is_relayer } else { *add };
                Action::IbcRelayerChange(if add {
                    IbcRelayerChange::Addition(w.addr(*who as usize))
                } else {
                    IbcRelayerChange::Removal(w.addr(*who as usize))
                })
            }
            AAction::FeeAssetChange { add, asset } => {
                if repair && signer != view.sudo {
                    continue;
                }
                let present = view
                    .fee_assets
                    .contains(&w.asset_ibc(*asset as usize).to_string());
                let add = if repair { !present } else { *add };
                Action::FeeAssetChange(if add {
                    FeeAssetChange::Addition(w.asset(*asset as usize).clone())
                } else {
                    FeeAssetChange::Removal(w.asset(*asset as usize).clone())
                })
            }
            AAction::FeeChange { row, base, mult } => {
                if repair && signer != view.sudo {
                    continue;
                }
                Action::FeeChange(fee_change(*row, base.0, mult.0))
            }
            AAction::CurrencyPairsChange { add, pair } => {
                if repair && signer != view.sudo {
                    continue;
                }
                let pair: astria_core::oracles::price_feed::types::v2::CurrencyPair =
                    CURRENCY_PAIRS[*pair as usize % CURRENCY_PAIRS.len()].parse().unwrap();
                let mut set = indexmap::IndexSet::new();
                set.insert(pair);
                Action::CurrencyPairsChange(if *add {
                    action::CurrencyPairsChange::Addition(set)
                } else {
                    action::CurrencyPairsChange::Removal(set)
                })
            }
            AAction::BadIbcRelay { client } => Action::Ibc(bad_ibc_relay(*client)),
            AAction::MarketsChange { kind, pair } => {
                use astria_core::oracles::price_feed::market_map::v2::{
                    Market,
                    ProviderConfig,
                    Ticker,
                };
                if repair && signer != view.sudo {
                    continue;
                }
                let text = MARKET_PAIRS[*pair as usize % MARKET_PAIRS.len()];
                let market = Market {
                    ticker: Ticker {
                        currency_pair: text.parse().unwrap(),
                        decimals: 6 + *pair % 4,
                        min_provider_count: 1,
                        enabled: *kind != 1 || *pair % 2 == 0,
                        metadata_json: String::new(),
                    },
                    provider_configs: vec![ProviderConfig {
                        name: "verif-provider".to_string(),
                        off_chain_ticker: text.replace('/', ""),
                        normalize_by_pair: None,
                        invert: false,
                        metadata_json: String::new(),
                    }],
                };
                Action::MarketsChange(match *kind % 3 {
                    0 => action::MarketsChange::Creation(vec![market]),
                    1 => action::MarketsChange::Update(vec![market]),
                    _ => action::MarketsChange::Removal(vec![market]),
                })
            }
            AAction::ValidatorUpdate { key, power } => {
                if repair && signer != view.sudo {
                    continue;
                }
                Action::ValidatorUpdate(ValidatorUpdate {
                    power: *power,
                    verification_key: w.validator_keys[*key as usize % N_VALIDATOR_KEYS].verification_key(),
                    name: format!("val{}", *key as usize % N_VALIDATOR_KEYS).parse().unwrap(),
                })
            }
        };
        actions.push(action);
        kept.push(a.clone());
    }
    let abstract_actions = kept;
    if actions.is_empty() {
        return None;
    }
    let current_nonce = pre.nonces.get(&signer).copied().unwrap_or(0);
    let nonce = match &atx.nonce {
        NonceMode::Correct | NonceMode::ReplayOf(_) => current_nonce,
        NonceMode::Stale(k) => current_nonce.saturating_sub(u32::from(*k)),
        NonceMode::Gap(k) => current_nonce.saturating_add(u32::from(*k)),
    };
    let _ = height;
    let body = TransactionBody::builder()
        .actions(actions.clone())
        .chain_id(world::CHAIN_ID)
        .nonce(nonce)
        .try_build()
        .ok()?;
    let tx = body.sign(&w.keys[signer_key]);
    let bytes: Bytes = tx.to_raw().encode_to_vec().into();
    let id: [u8; 32] = sha2::Sha256::digest(&bytes).into();
    Some(BuiltTx {
        signer_key,
        signer,
        nonce,
        actions,
        abstract_actions,
        bytes,
        id,
        is_replay: false,
    })
}

// ---------------------------------------------------------------------------------------------
// reference model of what a concrete action moves and charges
// ---------------------------------------------------------------------------------------------

/// `MsgUpgradeClient` with empty proofs for the seeded client (`client % 2 == 0`) or for a client
/// that does not exist: well formed, accepted at construction from a relayer, never applicable.
pub fn bad_ibc_relay(client: u8) -> penumbra_ibc::IbcRelay {
    use ibc_proto::{
        google::protobuf::{
            Any,
            Timestamp,
        },
        ibc::{
            core::commitment::v1::{
                MerkleProof as RawMerkleProof,
                MerkleRoot as RawMerkleRoot,
            },
            lightclients::tendermint::v1::{
                ClientState as RawTmClientState,
                ConsensusState as RawConsensusState,
            },
        },
    };
    use ibc_types::{
        core::client::{
            msgs::MsgUpgradeClient,
            ClientId,
            ClientType,
        },
        lightclients::tendermint::{
            client_state::{
                AllowUpdate,
                ClientState,
                TENDERMINT_CLIENT_STATE_TYPE_URL,
            },
            consensus_state::TENDERMINT_CONSENSUS_STATE_TYPE_URL,
            TrustThreshold,
        },
    };
    use prost::Message as _;
    let client_state = ClientState::new(
        ibc_types::core::connection::ChainId::new("counterparty".to_string(), 2),
        TrustThreshold::TWO_THIRDS,
        std::time::Duration::from_secs(1),
        std::time::Duration::from_secs(64_000),
        std::time::Duration::from_secs(1),
        IbcHeight::new(2, 20 + u64::from(client)).unwrap(),
        vec![ibc_proto_proof_spec()],
        vec![],
        AllowUpdate {
            after_expiry: true,
            after_misbehaviour: true,
        },
        None,
    )
    .unwrap();
    let raw_consensus_state = RawConsensusState {
        timestamp: Some(Timestamp {
            seconds: 1,
            nanos: 0,
        }),
        root: Some(RawMerkleRoot::default()),
        next_validators_hash: vec![],
    };
    let client_id = if client % 2 == 0 {
        ClientId::new(ClientType::new("07-tendermint".to_string()), 0).unwrap()
    } else {
        ClientId::new(ClientType::new("missing-client".to_string()), u64::from(client)).unwrap()
    };
    penumbra_ibc::IbcRelay::UpgradeClient(MsgUpgradeClient {
        client_id,
        client_state: Any {
            type_url: TENDERMINT_CLIENT_STATE_TYPE_URL.to_string(),
            value: RawTmClientState::from(client_state).encode_to_vec(),
        },
        consensus_state: Any {
            type_url: TENDERMINT_CONSENSUS_STATE_TYPE_URL.to_string(),
            value: raw_consensus_state.encode_to_vec(),
        },
        proof_upgrade_client: RawMerkleProof::default(),
        proof_upgrade_consensus_state: RawMerkleProof::default(),
        signer: String::new(),
    })
}

pub fn fee_row_and_size(action: &Action) -> Option<(&'static str, Denom, u128)> {
    Some(match action {
        Action::Transfer(a) => ("transfer", a.fee_asset.clone(), 0),
        Action::RollupDataSubmission(a) => ("rollup_data_submission", a.fee_asset.clone(), a.data.len() as u128),
        Action::Ics20Withdrawal(a) => ("ics20_withdrawal", a.fee_asset.clone(), 0),
        Action::InitBridgeAccount(a) => ("init_bridge_account", a.fee_asset.clone(), 0),
        Action::BridgeLock(a) => (
            "bridge_lock",
            a.fee_asset.clone(),
            // documented deposit size: length of the asset's display form + length of the
            // destination chain address + 16
            (a.asset.to_string().len() + a.destination_chain_address.len() + 16) as u128,
        ),
        Action::BridgeUnlock(a) => ("bridge_unlock", a.fee_asset.clone(), 0),
        Action::BridgeSudoChange(a) => ("bridge_sudo_change", a.fee_asset.clone(), 0),
        Action::BridgeTransfer(a) => ("bridge_transfer", a.fee_asset.clone(), 0),
        // every other action carries no fee asset: it is free
        _ => return None,
    })
}

pub fn action_row(action: &Action) -> &'static str {
    match action {
        Action::Transfer(_) => "transfer",
        Action::RollupDataSubmission(_) => "rollup_data_submission",
        Action::Ics20Withdrawal(_) => "ics20_withdrawal",
        Action::InitBridgeAccount(_) => "init_bridge_account",
        Action::BridgeLock(_) => "bridge_lock",
        Action::BridgeUnlock(_) => "bridge_unlock",
        Action::BridgeSudoChange(_) => "bridge_sudo_change",
        Action::BridgeTransfer(_) => "bridge_transfer",
        Action::Ibc(_) => "ibc_relay",
        Action::ValidatorUpdate(_) => "validator_update",
        Action::FeeAssetChange(_) => "fee_asset_change",
        Action::FeeChange(_) => "fee_change",
        Action::IbcRelayerChange(_) => "ibc_relayer_change",
        Action::SudoAddressChange(_) => "sudo_address_change",
        Action::IbcSudoChange(_) => "ibc_sudo_change",
        Action::RecoverIbcClient(_) => "recover_ibc_client",
        Action::CurrencyPairsChange(_) => "currency_pairs_change",
        Action::MarketsChange(_) => "markets_change",
    }
}

/// Is `denom` escrowed (rather than burned) when sent out over `channel`? An asset is foreign on
/// a channel iff its trace starts with `transfer/<channel>`.
pub fn is_escrowed_on(denom: &Denom, channel: &str) -> bool {
    let text = denom.to_string();
    !text.starts_with(&format!("transfer/{channel}/"))
}

/// The explicit value movements of one action (fees excluded).
pub fn explicit_effects(action: &Action, signer: &[u8; 20], view: &View, into: &mut Effects) {
    let mut mv = |account: [u8; 20], asset: String, delta: i128w::I| {
        *into.balance.entry((account, asset)).or_default() += delta;
    };
    match action {
        Action::Transfer(a) => {
            let asset = a.asset.to_ibc_prefixed().to_string();
            mv(*signer, asset.clone(), -i128w::u(a.amount));
            mv(a.to.bytes(), asset, i128w::u(a.amount));
        }
        Action::BridgeLock(a) => {
            let asset = a.asset.to_ibc_prefixed().to_string();
            mv(*signer, asset.clone(), -i128w::u(a.amount));
            mv(a.to.bytes(), asset, i128w::u(a.amount));
        }
        Action::BridgeUnlock(a) => {
            if let Some(b) = view.bridge_at(&a.bridge_address.bytes()) {
                let asset = b.asset.to_string();
                mv(a.bridge_address.bytes(), asset.clone(), -i128w::u(a.amount));
                mv(a.to.bytes(), asset, i128w::u(a.amount));
            }
        }
        Action::BridgeTransfer(a) => {
            if let Some(b) = view.bridge_at(&a.bridge_address.bytes()) {
                let asset = b.asset.to_string();
                mv(a.bridge_address.bytes(), asset.clone(), -i128w::u(a.amount));
                mv(a.to.bytes(), asset, i128w::u(a.amount));
            }
        }
        Action::Ics20Withdrawal(a) => {
            let source = a.bridge_address.map_or(*signer, |b| b.bytes());
            let asset = a.denom.to_ibc_prefixed().to_string();
            mv(source, asset.clone(), -i128w::u(a.amount));
            let channel = a.source_channel.to_string();
            if is_escrowed_on(&a.denom, &channel) {
                *into.escrow.entry((channel, asset)).or_default() += i128w::u(a.amount);
            }
        }
        _ => {}
    }
}

// ---------------------------------------------------------------------------------------------
// observations handed to the oracles
// ---------------------------------------------------------------------------------------------

pub struct TxObs<'a> {
    pub height: u64,
    pub tx: &'a BuiltTx,
    pub outcome: &'a TxOutcome,
    pub pre: &'a Dump,
    pub post: &'a Dump,
    pub view: &'a View,
}

#[derive(Clone, Debug)]
pub struct PacketInfo {
    pub packet: Packet,
    pub channel: String,
    pub denom_text: String,
    /// asset as it is (or would be) known on the sequencer
    pub local_asset: Option<Denom>,
    pub amount: Option<u128>,
    pub receiver: Option<[u8; 20]>,
    pub memo: String,
}

pub enum IbcKind {
    Recv,
    Ack { success: bool },
    Timeout,
}

pub struct IbcObs<'a> {
    pub height: u64,
    pub kind: IbcKind,
    pub info: &'a PacketInfo,
    /// `Err` = the handler returned an error (the relaying transaction would fail, no effects)
    pub result: &'a Result<(), String>,
    pub events: &'a [tendermint::abci::Event],
    pub pre: &'a Dump,
    pub post: &'a Dump,
    pub view: &'a View,
}

pub struct EndBlockObs<'a> {
    pub height: u64,
    pub pre: &'a Dump,
    pub post: &'a Dump,
    pub view: &'a View,
    pub result: &'a verif::EndBlock,
}

/// Typed reads of the committed state that need the crate's own decoders.
pub struct Committed {
    pub post_aspen: bool,
    /// the validator set in the storage layout that is current (`post_aspen` tells which)
    pub validators: Result<Vec<ValidatorUpdate>, String>,
    pub validator_count: Result<u64, String>,
}

impl Committed {
    pub async fn read<S: cnidarium::StateRead>(state: &S) -> Self {
        let post_aspen =
            verif::read::upgrade_change_applied(state, "aspen", "validator_update_action_change")
                .await
                .unwrap_or(false);
        let validators = if post_aspen {
            verif::read::validators(state).await
        } else {
            verif::read::pre_aspen_validator_set(state).await
        };
        Committed {
            post_aspen,
            validators,
            validator_count: verif::read::validator_count(state).await,
        }
    }
}

pub trait Oracle {
    fn on_tx(&mut self, _obs: &TxObs<'_>, _ctx: &mut Ctx) -> CaseResult {
        Ok(())
    }
    fn on_ibc(&mut self, _obs: &IbcObs<'_>, _ctx: &mut Ctx) -> CaseResult {
        Ok(())
    }
    fn on_end_block(&mut self, _obs: &EndBlockObs<'_>, _ctx: &mut Ctx) -> CaseResult {
        Ok(())
    }
    /// after the block's state was committed
    fn on_committed(&mut self, _height: u64, _dump: &Dump, _committed: &Committed, _ctx: &mut Ctx) -> CaseResult {
        Ok(())
    }
    fn finish(&mut self, _ctx: &mut Ctx) -> CaseResult {
        Ok(())
    }
}

// ---------------------------------------------------------------------------------------------
// IBC plumbing
// ---------------------------------------------------------------------------------------------

/// Seeds one tendermint client, one connection and two open ICS-20 channels (harness
/// precondition: building them through real handshakes needs counterparty proofs).
pub async fn seed_ibc(node: &mut Node) {
    use ibc_types::{
        core::{
            channel::{
                channel::{
                    Counterparty,
                    Order,
                    State,
                },
                ChannelEnd,
                Version,
            },
            client::ClientId,
            commitment::MerkleRoot,
            connection::{
                self,
                ConnectionEnd,
                ConnectionId,
            },
        },
        lightclients::tendermint::{
            client_state::{
                AllowUpdate,
                ClientState,
            },
            ConsensusState,
            TrustThreshold,
        },
    };
    use penumbra_ibc::component::{
        ChannelStateWriteExt as _,
        ClientStateWriteExt as _,
        ConnectionStateWriteExt as _,
    };
    let client_id = ClientId::new(ibc_types::core::client::ClientType::new("07-tendermint".to_string()), 0).unwrap();
    let connection_id = ConnectionId::new(0);
    let height = IbcHeight::new(2, 10).unwrap();
    let client_state = ClientState::new(
        ibc_types::core::connection::ChainId::new("counterparty".to_string(), 2),
        TrustThreshold::TWO_THIRDS,
        std::time::Duration::from_secs(10_000_000),
        std::time::Duration::from_secs(64_000_000),
        std::time::Duration::from_secs(1),
        height,
        vec![ibc_proto_proof_spec()],
        vec![],
        AllowUpdate {
            after_expiry: true,
            after_misbehaviour: true,
        },
        None,
    )
    .unwrap();
    let mut tx = node.begin_state_tx();
    verif::write::block_timestamp(&mut tx, block_time(0)).expect("block timestamp");
    // the consensus-state writer records the host height, which must be non-zero
    verif::write::block_height(&mut tx, 1).expect("block height");
    tx.put_client(&client_id, client_state);
    verif::write::verified_consensus_state(
        &mut tx,
        height,
        client_id.clone(),
        ConsensusState::new(
            MerkleRoot {
                hash: vec![1; 32],
            },
            tendermint::Time::from_unix_timestamp(T0, 0).unwrap(),
            tendermint::Hash::Sha256([2; 32]),
        ),
    )
    .await
    .expect("consensus state");
    let connection = ConnectionEnd {
        state: connection::State::Open,
        client_id: client_id.clone(),
        counterparty: connection::Counterparty {
            client_id: client_id.clone(),
            connection_id: Some(ConnectionId::new(5)),
            prefix: ibc_types::core::commitment::MerklePrefix {
                key_prefix: b"ibc".to_vec(),
            },
        },
        versions: vec![connection::Version::default()],
        delay_period: std::time::Duration::from_secs(0),
    };
    tx.update_connection(&connection_id, connection);
    for (local, remote) in CHANNELS.iter().zip(REMOTE_CHANNELS.iter()) {
        let channel = ChannelEnd {
            state: State::Open,
            ordering: Order::Unordered,
            remote: Counterparty {
                port_id: PortId::transfer(),
                channel_id: Some(remote.parse().unwrap()),
            },
            connection_hops: vec![connection_id.clone()],
            version: Version::new("ics20-1".to_string()),
            ..ChannelEnd::default()
        };
        let channel_id: ChannelId = local.parse().unwrap();
        tx.put_channel(&channel_id, &PortId::transfer(), channel);
        tx.put_send_sequence(&channel_id, &PortId::transfer(), 1);
        tx.put_recv_sequence(&channel_id, &PortId::transfer(), 1);
        tx.put_ack_sequence(&channel_id, &PortId::transfer(), 1);
    }
    verif::write::block_height(&mut tx, 0).expect("block height");
    node.apply_state_tx(tx);
    node.commit_seeded_state().await.expect("commit ibc seed");
}

fn ibc_proto_proof_spec() -> ibc_proto::ics23::ProofSpec {
    ibc_proto::ics23::ProofSpec {
        leaf_spec: None,
        inner_spec: None,
        max_depth: 0,
        min_depth: 0,
        prehash_key_before_comparison: false,
    }
}

fn deposit_memo(kind: &Memo) -> String {
    match kind {
        Memo::Empty => String::new(),
        Memo::Deposit => serde_json::to_string(&Ics20TransferDeposit {
            rollup_deposit_address: "rollup-deposit-address".to_string(),
        })
        .unwrap(),
        Memo::DepositEmptyAddress => serde_json::to_string(&Ics20TransferDeposit {
            rollup_deposit_address: String::new(),
        })
        .unwrap(),
        Memo::DepositLongAddress => serde_json::to_string(&Ics20TransferDeposit {
            rollup_deposit_address: "x".repeat(300),
        })
        .unwrap(),
        Memo::Invalid => "{not json".to_string(),
    }
}

fn packet_json(amount: &str, denom: &str, sender: &str, receiver: &str, memo: &str) -> Vec<u8> {
    // the ICS-20 `FungibleTokenPacketData` JSON encoding
    let mut map = serde_json::Map::new();
    map.insert("amount".into(), amount.into());
    map.insert("denom".into(), denom.into());
    map.insert("sender".into(), sender.into());
    map.insert("receiver".into(), receiver.into());
    if !memo.is_empty() {
        map.insert("memo".into(), memo.into());
    }
    serde_json::to_vec(&serde_json::Value::Object(map)).unwrap()
}

/// Builds the packet of an incoming transfer.
#[allow(clippy::too_many_arguments)]
pub fn incoming_packet(
    channel: u8,
    asset: u8,
    well_formed_denom: bool,
    amt: &PacketAmt,
    receiver: &Receiver,
    memo: &Memo,
    pre: &Dump,
    sequence: u64,
) -> PacketInfo {
    let w = &*WORLD;
    let ch = channel as usize % 2;
    let local = w.asset(asset as usize).clone();
    let local_text = local.to_string();
    // what the counterparty calls the asset: assets that are foreign on THIS channel were sent to
    // us by them, so they arrive un-prefixed... no: a returning sequencer-origin asset arrives
    // prefixed with the counterparty's (port, channel); a counterparty-origin asset arrives bare.
    let foreign_prefix = format!("transfer/{}/", CHANNELS[ch]);
    let (denom_text, local_asset) = if let Some(base) = local_text.strip_prefix(&foreign_prefix) {
        // asset that originated over this channel: arrives as its base denom
        (base.to_string(), Some(local.clone()))
    } else {
        // sequencer-origin (or other-channel) asset returning: prefixed by the remote end
        (
            format!("transfer/{}/{local_text}", REMOTE_CHANNELS[ch]),
            Some(local.clone()),
        )
    };
    let (denom_text, local_asset) = if well_formed_denom {
        (denom_text, local_asset)
    } else {
        ("///not a denom".to_string(), None)
    };
    let escrowed = pre
        .escrow
        .get(&(CHANNELS[ch].to_string(), local.to_ibc_prefixed().to_string()))
        .copied()
        .unwrap_or(0);
    let amount: Option<u128> = match amt {
        PacketAmt::One => Some(1),
        PacketAmt::Small(v) => Some(u128::from(*v)),
        PacketAmt::EscrowMinusOne => Some(escrowed.saturating_sub(1).max(1)),
        PacketAmt::Escrow => Some(escrowed.max(1)),
        PacketAmt::EscrowPlusOne => Some(escrowed.saturating_add(1)),
        PacketAmt::Max => Some(u128::MAX),
        PacketAmt::NotANumber => None,
    };
    let amount_text = amount.map_or("12x".to_string(), |a| a.to_string());
    let (receiver_text, receiver_addr) = match receiver {
        Receiver::Key(k) => (w.addr(*k as usize).to_string(), Some(w.addr_bytes(*k as usize))),
        Receiver::KeyCompat(k) => (
            w.addr(*k as usize)
                .to_prefix(world::COMPAT_PREFIX)
                .unwrap()
                .to_format::<astria_core::primitive::v1::Bech32>()
                .to_string(),
            Some(w.addr_bytes(*k as usize)),
        ),
        Receiver::WrongPrefix(k) => (
            w.addr(*k as usize).to_prefix("other").unwrap().to_string(),
            None,
        ),
        Receiver::Garbage => ("not-an-address".to_string(), None),
    };
    let memo_text = deposit_memo(memo);
    let data = packet_json(&amount_text, &denom_text, "cosmos1sender", &receiver_text, &memo_text);
    let packet = Packet {
        sequence: sequence.into(),
        port_on_a: PortId::transfer(),
        chan_on_a: REMOTE_CHANNELS[ch].parse().unwrap(),
        port_on_b: PortId::transfer(),
        chan_on_b: CHANNELS[ch].parse().unwrap(),
        data,
        timeout_height_on_b: ibc_types::core::channel::TimeoutHeight::Never,
        timeout_timestamp_on_b: ibc_types::timestamp::Timestamp::none(),
    };
    PacketInfo {
        packet,
        channel: CHANNELS[ch].to_string(),
        denom_text,
        local_asset,
        amount,
        receiver: receiver_addr,
        memo: memo_text,
    }
}

/// The packet a successful `Ics20Withdrawal` sent (rebuilt from the action, as the counterparty
/// would echo it back in an acknowledgement or timeout).
pub fn outgoing_packet(action: &Ics20Withdrawal, _signer: &[u8; 20], sequence: u64) -> PacketInfo {
    let sender = if action.use_compat_address {
        action
            .return_address
            .to_prefix(world::COMPAT_PREFIX)
            .unwrap()
            .to_format::<astria_core::primitive::v1::Bech32>()
            .to_string()
    } else {
        action.return_address.to_string()
    };
    let data = packet_json(
        &action.amount.to_string(),
        &action.denom.to_string(),
        &sender,
        &action.destination_chain_address,
        &action.memo,
    );
    let ch = action.source_channel.to_string();
    let idx = CHANNELS.iter().position(|c| *c == ch).unwrap_or(0);
    let packet = Packet {
        sequence: sequence.into(),
        port_on_a: PortId::transfer(),
        chan_on_a: action.source_channel.clone(),
        port_on_b: PortId::transfer(),
        chan_on_b: REMOTE_CHANNELS[idx].parse().unwrap(),
        data,
        timeout_height_on_b: ibc_types::core::channel::TimeoutHeight::Never,
        timeout_timestamp_on_b: ibc_types::timestamp::Timestamp::none(),
    };
    PacketInfo {
        packet,
        channel: ch,
        denom_text: action.denom.to_string(),
        local_asset: Some(action.denom.clone()),
        amount: Some(action.amount),
        // a refund (timeout / error acknowledgement) is paid to the packet's sender, which is the
        // withdrawal's return address - not necessarily the account the funds came from
        receiver: Some(action.return_address.bytes()),
        memo: action.memo.clone(),
    }
}

// ---------------------------------------------------------------------------------------------
// interpreter
// ---------------------------------------------------------------------------------------------

#[derive(Default)]
pub struct RunStats {
    pub txs_built: usize,
    pub txs_executed: usize,
    pub txs_failed: usize,
    pub ibc_ops: usize,
}

pub fn block_time(height: u64) -> tendermint::Time {
    tendermint::Time::from_unix_timestamp(T0 + height as i64, 0).unwrap()
}

pub fn proposer() -> tendermint::account::Id {
    tendermint::account::Id::new([7; 20])
}

/// Interprets `history` against a freshly booted node, transaction by transaction.
pub async fn run(history: &History, oracle: &mut dyn Oracle, ctx: &mut Ctx) -> Result<RunStats, vcommon::Failure> {
    let mut node = world::boot(&history.genesis, 100).await;
    seed_ibc(&mut node).await;
    let mut stats = RunStats::default();
    let mut built: Vec<BuiltTx> = Vec::new();
    // successful withdrawals, for acks / timeouts: (packet info, already resolved?)
    let mut sent: Vec<(PacketInfo, bool)> = Vec::new();
    let mut recv_sequence = 1_u64;
    let mut send_sequence = 1_u64;
    for (i, block) in history.blocks.iter().enumerate() {
        let height = i as u64 + 1;
        node.begin_block(
            tendermint::block::Height::try_from(height).unwrap(),
            block_time(height),
            proposer(),
        )
        .await
        .map_err(|e| vcommon::Failure::new("begin-block-failed", format!("begin_block({height}) failed: {e}")))?;
        for op in block {
            let pre = world::dump(node.state()).await;
            let view = View::read(node.state()).await;
            match op {
                AOp::Tx(atx) => {
                    let Some(tx) = concretize(atx, &view, &pre, &built, height) else {
                        ctx.label("noop:unbuildable-tx");
                        continue;
                    };
                    stats.txs_built += 1;
                    let outcome = node.execute_tx(tx.bytes.clone()).await;
                    let post = world::dump(node.state()).await;
                    match &outcome {
                        TxOutcome::Executed(_) => {
                            stats.txs_executed += 1;
                            for action in &tx.actions {
                                if let Action::Ics20Withdrawal(w) = action {
                                    sent.push((outgoing_packet(w, &tx.signer, send_sequence), false));
                                    send_sequence += 1;
                                }
                            }
                        }
                        _ => stats.txs_failed += 1,
                    }
                    let obs = TxObs {
                        height,
                        tx: &tx,
                        outcome: &outcome,
                        pre: &pre,
                        post: &post,
                        view: &view,
                    };
                    oracle.on_tx(&obs, ctx)?;
                    if !tx.is_replay {
                        built.push(tx);
                    }
                }
                AOp::IbcRecv { channel, asset, well_formed_denom, amt, receiver, memo } => {
                    stats.ibc_ops += 1;
                    let info = incoming_packet(
                        *channel,
                        *asset,
                        *well_formed_denom,
                        amt,
                        receiver,
                        memo,
                        &pre,
                        recv_sequence,
                    );
                    recv_sequence += 1;
                    let msg = MsgRecvPacket {
                        packet: info.packet.clone(),
                        proof_commitment_on_a: ibc_types::core::commitment::MerkleProof {
                            proofs: vec![],
                        },
                        proof_height_on_a: IbcHeight::new(2, 10).unwrap(),
                        signer: "relayer".to_string(),
                    };
                    let mut state_tx = node.begin_state_tx();
                    verif::put_ibc_context(&mut state_tx, TransactionId::new([0xab; 32]), 0);
                    let result = verif::ics20_recv_packet(&mut state_tx, &msg).await;
                    let events = if result.is_ok() {
                        node.apply_state_tx(state_tx)
                    } else {
                        drop(state_tx);
                        vec![]
                    };
                    let post = world::dump(node.state()).await;
                    oracle.on_ibc(
                        &IbcObs {
                            height,
                            kind: IbcKind::Recv,
                            info: &info,
                            result: &result,
                            events: &events,
                            pre: &pre,
                            post: &post,
                            view: &view,
                        },
                        ctx,
                    )?;
                }
                AOp::IbcAck { of, success } => {
                    let open: Vec<usize> = sent.iter().enumerate().filter(|(_, s)| !s.1).map(|(i, _)| i).collect();
                    if open.is_empty() {
                        ctx.label("noop:no-open-packet");
                        continue;
                    }
                    stats.ibc_ops += 1;
                    let idx = open[vcommon::gen::pick_index(*of, open.len())];
                    sent[idx].1 = true;
                    let info = sent[idx].0.clone();
                    let ack: Vec<u8> = if *success {
                        br#"{"result":"AQ=="}"#.to_vec()
                    } else {
                        br#"{"error":"counterparty refused"}"#.to_vec()
                    };
                    let msg = MsgAcknowledgement {
                        packet: info.packet.clone(),
                        acknowledgement: ack,
                        proof_acked_on_b: ibc_types::core::commitment::MerkleProof {
                            proofs: vec![],
                        },
                        proof_height_on_b: IbcHeight::new(2, 10).unwrap(),
                        signer: "relayer".to_string(),
                    };
                    let mut state_tx = node.begin_state_tx();
                    verif::put_ibc_context(&mut state_tx, TransactionId::new([0xac; 32]), 0);
                    let result = verif::ics20_acknowledge_packet(&mut state_tx, &msg).await;
                    let events = if result.is_ok() {
                        node.apply_state_tx(state_tx)
                    } else {
                        drop(state_tx);
                        vec![]
                    };
                    let post = world::dump(node.state()).await;
                    oracle.on_ibc(
                        &IbcObs {
                            height,
                            kind: IbcKind::Ack {
                                success: *success,
                            },
                            info: &info,
                            result: &result,
                            events: &events,
                            pre: &pre,
                            post: &post,
                            view: &view,
                        },
                        ctx,
                    )?;
                }
                AOp::IbcTimeout { of } => {
                    let open: Vec<usize> = sent.iter().enumerate().filter(|(_, s)| !s.1).map(|(i, _)| i).collect();
                    if open.is_empty() {
                        ctx.label("noop:no-open-packet");
                        continue;
                    }
                    stats.ibc_ops += 1;
                    let idx = open[vcommon::gen::pick_index(*of, open.len())];
                    sent[idx].1 = true;
                    let info = sent[idx].0.clone();
                    let msg = MsgTimeout {
                        packet: info.packet.clone(),
                        next_seq_recv_on_b: 1_u64.into(),
                        proof_unreceived_on_b: ibc_types::core::commitment::MerkleProof {
                            proofs: vec![],
                        },
                        proof_height_on_b: IbcHeight::new(2, 10).unwrap(),
                        signer: "relayer".to_string(),
                    };
                    let mut state_tx = node.begin_state_tx();
                    verif::put_ibc_context(&mut state_tx, TransactionId::new([0xad; 32]), 0);
                    let result = verif::ics20_timeout_packet(&mut state_tx, &msg).await;
                    let events = if result.is_ok() {
                        node.apply_state_tx(state_tx)
                    } else {
                        drop(state_tx);
                        vec![]
                    };
                    let post = world::dump(node.state()).await;
                    oracle.on_ibc(
                        &IbcObs {
                            height,
                            kind: IbcKind::Timeout,
                            info: &info,
                            result: &result,
                            events: &events,
                            pre: &pre,
                            post: &post,
                            view: &view,
                        },
                        ctx,
                    )?;
                }
            }
        }
        let pre = world::dump(node.state()).await;
        let view = View::read(node.state()).await;
        let result = match node.end_block(height).await {
            Ok(result) => result,
            Err(error) => {
                // The fee pot cannot be credited when recipient balance + pot exceeds u128::MAX:
                // the generated world holds more than u128::MAX of that asset in total, which no
                // property speaks about (recorded as an observation in DESIGN.md, section 5). The
                // history ends here; any other end_block failure is reported.
                let recipient_overflows = pre.block_fees.iter().any(|(asset, amount)| {
                    pre.balances
                        .get(&(view.sudo, asset.clone()))
                        .copied()
                        .unwrap_or(0)
                        .checked_add(*amount)
                        .is_none()
                });
                if recipient_overflows {
                    ctx.label("history-ends:fee-recipient-balance-would-exceed-u128");
                    oracle.finish(ctx)?;
                    return Ok(stats);
                }
                return Err(vcommon::Failure::new(
                    "end-block-failed",
                    format!("end_block({height}) failed: {error}"),
                ));
            }
        };
        let post = world::dump(node.state()).await;
        oracle.on_end_block(
            &EndBlockObs {
                height,
                pre: &pre,
                post: &post,
                view: &view,
                result: &result,
            },
            ctx,
        )?;
        node.commit_seeded_state()
            .await
            .map_err(|e| vcommon::Failure::new("commit-failed", format!("commit({height}) failed: {e}")))?;
        let committed_dump = world::dump(node.state()).await;
        let committed = Committed::read(node.state()).await;
        oracle.on_committed(height, &committed_dump, &committed, ctx)?;
    }
    oracle.finish(ctx)?;
    Ok(stats)
}

pub fn fee_events(events: &[tendermint::abci::Event]) -> Vec<(String, String, u128, u64)> {
    events
        .iter()
        .filter(|e| e.kind == "tx.fees")
        .map(|e| {
            let get = |k: &str| -> String {
                e.attributes
                    .iter()
                    .find(|a| a.key_str().ok() == Some(k))
                    .and_then(|a| a.value_str().ok().map(str::to_string))
                    .unwrap_or_default()
            };
            (
                get("actionName"),
                get("asset"),
                get("feeAmount").parse().unwrap_or(u128::MAX),
                get("positionInTransaction").parse().unwrap_or(u64::MAX),
            )
        })
        .collect()
}

pub fn action_module() -> &'static str {
    let _ = action::Transfer::full_name;
    "astria.protocol.transaction.v1"
}
