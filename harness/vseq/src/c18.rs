//! C18 — IBC transfers: exact escrow accounting; a failed receive has no side effects.
//!
//! Oracle: (1) an escrow ledger model per (channel, asset), driven only by the generated
//! operations and their observed success: `sent - returned - refunded`; it must equal the stored
//! escrow balance after every operation and a release may never exceed what was escrowed.
//! (2) a reference predicate, computed from the generated packet alone, for packets that cannot
//! be applied; such packets must be acknowledged (handler returns Ok) and must change nothing the
//! sequencer owns. (3) outcome shape: a packet that took effect credits exactly one account with
//! exactly the packet amount.

use std::collections::BTreeMap;

use astria_core::protocol::transaction::v1::Action;
use astria_sequencer::verif::TxOutcome;
use num_bigint::BigInt;
use vcommon::{
    vensure,
    CaseResult,
    Ctx,
    Prop,
    Session,
};

use crate::{
    c01::{
        asset_name,
        balance_deltas,
        escrow_deltas,
        short,
    },
    hist::{
        self,
        i128w,
        Bias,
        History,
        IbcKind,
        IbcObs,
        Oracle,
        TxObs,
    },
    world::{
        self,
        Dump,
    },
};

/// key families owned by the sequencer's own components; an unapplied packet must not touch them
const OWN_PREFIXES: [&str; 10] = [
    "accounts/",
    "bridge/",
    "ibc/",
    "fees/",
    "authority/",
    "assets/",
    "address/",
    "app/",
    "price_feed/",
    "upgrades/",
];

#[derive(Default)]
pub struct C18Oracle {
    /// (channel, asset ibc text) -> escrowed amount according to the model
    ledger: BTreeMap<(String, String), BigInt>,
    failed_receive_to_bridge: bool,
    refund_beyond_escrow: bool,
    receive_beyond_escrow: bool,
    receives_applied: usize,
    seeded: bool,
}

fn own_keys_changed(pre: &Dump, post: &Dump) -> Vec<String> {
    let mut out = Vec::new();
    for (k, v) in &post.verifiable {
        if pre.verifiable.get(k) != Some(v) && OWN_PREFIXES.iter().any(|p| k.starts_with(p)) {
            out.push(k.clone());
        }
    }
    for k in pre.verifiable.keys() {
        if !post.verifiable.contains_key(k) && OWN_PREFIXES.iter().any(|p| k.starts_with(p)) {
            out.push(k.clone());
        }
    }
    out
}

impl C18Oracle {
    fn check_ledger(&mut self, height: u64, what: &str, post: &Dump) -> CaseResult {
        let mut stored: BTreeMap<(String, String), BigInt> = post
            .escrow
            .iter()
            .filter(|(_, v)| **v != 0)
            .map(|(k, v)| (k.clone(), i128w::u(*v)))
            .collect();
        let mut model = self.ledger.clone();
        model.retain(|_, v| *v != BigInt::from(0));
        stored.retain(|_, v| *v != BigInt::from(0));
        vensure!(
            stored == model,
            "escrow-differs-from-ledger",
            "height {height}: after {what}: stored escrow {:?} but sent - returned - refunded = {:?}",
            stored,
            model
        );
        Ok(())
    }
}

impl Oracle for C18Oracle {
    fn on_tx(&mut self, obs: &TxObs<'_>, ctx: &mut Ctx) -> CaseResult {
        if !self.seeded {
            // escrow present at genesis (none today) would be the ledger's starting point
            for (k, v) in &obs.pre.escrow {
                self.ledger.insert(k.clone(), i128w::u(*v));
            }
            self.seeded = true;
        }
        if let TxOutcome::Executed(_) = obs.outcome {
            for action in &obs.tx.actions {
                if let Action::Ics20Withdrawal(w) = action {
                    let channel = w.source_channel.to_string();
                    if hist::is_escrowed_on(&w.denom, &channel) {
                        *self
                            .ledger
                            .entry((channel, w.denom.to_ibc_prefixed().to_string()))
                            .or_default() += i128w::u(w.amount);
                        ctx.label("withdrawal-escrowed");
                    } else {
                        ctx.label("withdrawal-burned");
                    }
                }
            }
        }
        let kinds: Vec<&str> = obs.tx.actions.iter().map(hist::action_row).collect();
        self.check_ledger(obs.height, &format!("transaction {kinds:?}"), obs.post)
    }

    fn on_ibc(&mut self, obs: &IbcObs<'_>, ctx: &mut Ctx) -> CaseResult {
        if !self.seeded {
            for (k, v) in &obs.pre.escrow {
                self.ledger.insert(k.clone(), i128w::u(*v));
            }
            self.seeded = true;
        }
        let info = obs.info;
        let data = String::from_utf8_lossy(&info.packet.data).to_string();
        let balances = balance_deltas(obs.pre, obs.post);
        let escrow = escrow_deltas(obs.pre, obs.post);
        let took_effect = !balances.is_empty();
        let escrowed_asset = info
            .local_asset
            .as_ref()
            .is_some_and(|a| hist::is_escrowed_on(a, &info.channel));
        let asset_text = info.local_asset.as_ref().map(|a| a.to_ibc_prefixed().to_string());
        let pre_escrow = asset_text
            .as_ref()
            .and_then(|a| obs.pre.escrow.get(&(info.channel.clone(), a.clone())).copied())
            .unwrap_or(0);
        let new_deposits = obs.post.cached_deposits.len() as i64 - obs.pre.cached_deposits.len() as i64;
        let deposit_events = obs.events.iter().filter(|e| e.kind == "tx.deposit").count();

        match obs.kind {
            IbcKind::Recv => {
                // ---- reference predicate: can this packet be applied at all? -------------------
                let mut cannot: Vec<&str> = Vec::new();
                if info.receiver.is_none() {
                    cannot.push("bad recipient");
                }
                if info.amount.is_none() {
                    cannot.push("amount is not a number");
                }
                if info.local_asset.is_none() {
                    cannot.push("malformed denom");
                }
                if let (Some(asset), true) = (&asset_text, obs.view.post_blackburn_bridge_disable) {
                    // post-Blackburn only allowed fee assets may be transferred in
                    if !obs.view.fee_assets.contains(asset) {
                        cannot.push("asset is not an allowed fee asset (post Blackburn)");
                    }
                }
                let recipient_bridge = info.receiver.as_ref().and_then(|r| obs.view.bridge_at(r));
                if let Some(bridge) = recipient_bridge {
                    if bridge.disabled {
                        cannot.push("bridge deposits disabled");
                    }
                    if asset_text.as_deref() != Some(&bridge.asset.to_string()) {
                        cannot.push("asset does not match the bridge's asset");
                    }
                    let memo_ok = serde_json::from_str::<
                        astria_core::protocol::memos::v1::Ics20TransferDeposit,
                    >(&info.memo)
                    .map(|m| !m.rollup_deposit_address.is_empty() && m.rollup_deposit_address.len() <= 256)
                    .unwrap_or(false);
                    if !memo_ok {
                        cannot.push("bad deposit memo");
                    }
                }
                if let (true, Some(amount)) = (escrowed_asset, info.amount) {
                    if amount > pre_escrow {
                        cannot.push("insufficient escrow");
                        self.receive_beyond_escrow = true;
                    }
                }
                if let (Some(receiver), Some(asset), Some(amount)) = (&info.receiver, &asset_text, info.amount) {
                    let before = obs.pre.balances.get(&(*receiver, asset.clone())).copied().unwrap_or(0);
                    if before.checked_add(amount).is_none() {
                        cannot.push("recipient balance overflow");
                    }
                }
                if !cannot.is_empty() {
                    ctx.label("recv:unappliable");
                    for why in &cannot {
                        ctx.label(format!("recv:unappliable:{why}"));
                    }
                    if recipient_bridge.is_some() {
                        self.failed_receive_to_bridge = true;
                    }
                    vensure!(
                        obs.result.is_ok(),
                        "unappliable-packet-not-acknowledged",
                        "height {}: packet {data} cannot be applied ({}) and must be acknowledged with an error, but the handler failed: {:?}",
                        obs.height,
                        cannot.join(", "),
                        obs.result
                    );
                    vensure!(
                        !took_effect && escrow.is_empty(),
                        "unappliable-packet-moved-funds",
                        "height {}: packet {data} cannot be applied ({}) but balances changed: {:?} escrow {:?}",
                        obs.height,
                        cannot.join(", "),
                        balances
                            .iter()
                            .map(|((a, asset), d)| format!("{}:{}:{:+}", short(a), asset_name(asset), d))
                            .collect::<Vec<_>>(),
                        escrow
                    );
                }
                if !took_effect {
                    // ---- a receive without effect has no side effects ---------------------------
                    vensure!(
                        new_deposits == 0 && deposit_events == 0,
                        "deposit-from-packet-without-effect",
                        "height {}: packet {data} changed no balance but registered {new_deposits} deposit(s) / {deposit_events} deposit event(s)",
                        obs.height
                    );
                    let touched = own_keys_changed(obs.pre, obs.post);
                    vensure!(
                        touched.is_empty() && escrow.is_empty() && obs.pre.block_fees == obs.post.block_fees,
                        "failed-receive-left-writes",
                        "height {}: packet {data} changed no balance but wrote {:?}",
                        obs.height,
                        touched
                    );
                    ctx.label("recv:no-effect");
                } else {
                    // ---- a receive that took effect credits exactly one account exactly ---------
                    ctx.label("recv:applied");
                    self.receives_applied += 1;
                    let (Some(receiver), Some(asset), Some(amount)) = (&info.receiver, &asset_text, info.amount)
                    else {
                        vensure!(false, "malformed-packet-applied", "height {}: packet {data} is malformed but changed balances", obs.height);
                        unreachable!()
                    };
                    let mut expected = BTreeMap::new();
                    if amount != 0 {
                        expected.insert((*receiver, asset.clone()), i128w::u(amount));
                    }
                    vensure!(
                        balances == expected,
                        "receive-credit-differs",
                        "height {}: packet {data}: balances changed by {:?}, expected exactly +{amount} {} for {}",
                        obs.height,
                        balances
                            .iter()
                            .map(|((a, asset), d)| format!("{}:{}:{:+}", short(a), asset_name(asset), d))
                            .collect::<Vec<_>>(),
                        asset_name(asset),
                        short(receiver)
                    );
                    if escrowed_asset {
                        vensure!(
                            amount <= pre_escrow,
                            "released-more-than-escrowed",
                            "height {}: packet {data} released {amount} but only {pre_escrow} was escrowed on {}",
                            obs.height,
                            info.channel
                        );
                        *self
                            .ledger
                            .entry((info.channel.clone(), asset.clone()))
                            .or_default() -= i128w::u(amount);
                        ctx.label("recv:applied:released-from-escrow");
                    } else {
                        ctx.label("recv:applied:minted");
                    }
                    let to_bridge = obs.view.bridge_at(receiver).is_some();
                    vensure!(
                        new_deposits == i64::from(to_bridge) && deposit_events == usize::from(to_bridge),
                        "receive-deposit-count-wrong",
                        "height {}: packet {data} to {} ({}a bridge account) registered {new_deposits} deposit(s), {deposit_events} event(s)",
                        obs.height,
                        short(receiver),
                        if to_bridge { "" } else { "not " }
                    );
                }
            }
            IbcKind::Ack { success: true } => {
                ctx.label("ack:success");
                vensure!(
                    obs.result.is_ok() && !took_effect && escrow.is_empty() && new_deposits == 0,
                    "success-ack-had-effects",
                    "height {}: a success acknowledgement for {data} changed state (result {:?})",
                    obs.height,
                    obs.result
                );
            }
            IbcKind::Ack { success: false } | IbcKind::Timeout => {
                let kind = if matches!(obs.kind, IbcKind::Timeout) { "timeout" } else { "error-ack" };
                let (Some(receiver), Some(asset), Some(amount)) = (&info.receiver, &asset_text, info.amount) else {
                    unreachable!("outgoing packets are well formed")
                };
                if escrowed_asset && amount > pre_escrow {
                    self.refund_beyond_escrow = true;
                    ctx.label("refund:beyond-escrow");
                    vensure!(
                        obs.result.is_err() && !took_effect,
                        "refund-beyond-escrow-applied",
                        "height {}: {kind} refund of {amount} for {data} was applied although only {pre_escrow} is escrowed",
                        obs.height
                    );
                }
                if obs.result.is_err() {
                    ctx.label("refund:failed");
                    vensure!(
                        obs.pre == obs.post,
                        "failed-refund-left-writes",
                        "height {}: {kind} of {data} failed ({:?}) but state changed",
                        obs.height,
                        obs.result
                    );
                } else {
                    ctx.label("refund:applied");
                    let mut expected = BTreeMap::new();
                    if amount != 0 {
                        expected.insert((*receiver, asset.clone()), i128w::u(amount));
                    }
                    vensure!(
                        balances == expected,
                        "refund-credit-differs",
                        "height {}: {kind} of {data}: balances changed by {:?}, expected exactly +{amount} for {}",
                        obs.height,
                        balances
                            .iter()
                            .map(|((a, asset), d)| format!("{}:{}:{:+}", short(a), asset_name(asset), d))
                            .collect::<Vec<_>>(),
                        short(receiver)
                    );
                    if escrowed_asset {
                        *self
                            .ledger
                            .entry((info.channel.clone(), asset.clone()))
                            .or_default() -= i128w::u(amount);
                    }
                }
            }
        }
        self.check_ledger(obs.height, &format!("packet {data}"), obs.post)
    }
}

fn bias() -> Bias {
    Bias {
        currency_pairs: 0,
        transfer: 2,
        rollup: 0,
        bridge: 3,
        ics20: 14,
        bridge_admin: 2,
        sudo: 1,
        validator: 0,
        ibc_in: 22,
        wrong_signer_pct: 4,
        bad_nonce_pct: 2,
        max_blocks: 6,
        max_ops: 10,
        max_actions: 2,
        bridge_genesis_pct: 85,
    }
}

fn case(history: &History, ctx: &mut Ctx) -> CaseResult {
    let mut oracle = C18Oracle::default();
    let stats = world::block_on(hist::run(history, &mut oracle, ctx))?;
    ctx.set_nontrivial(oracle.failed_receive_to_bridge || oracle.refund_beyond_escrow);
    if oracle.receive_beyond_escrow {
        ctx.label("history:receive-beyond-escrow");
    }
    if oracle.failed_receive_to_bridge {
        ctx.label("history:failed-receive-to-bridge");
    }
    ctx.note("ibc_ops", stats.ibc_ops);
    ctx.note("receives_applied", oracle.receives_applied);
    ctx.note("txs_executed", stats.txs_executed);
    Ok(())
}

pub fn run(args: &[String]) -> ! {
    let mut s = Session::from_args("C18", "exploration", args);
    s.assume("incoming packets, acknowledgements and timeouts enter at the ICS-20 application handler (check + execute inside a state transaction with the IBC context set), i.e. after penumbra's proof verification; a handler error drops the transaction's writes as a failing IbcRelay transaction does");
    s.assume("two open channels on one seeded tendermint client; withdrawals are real Ics20Withdrawal transactions");
    s.run_prop_with(Prop {
        name: "histories",
        rule: "2 channels x 4 assets (native, second sequencer-origin, foreign on channel-0, foreign on \
               channel-1) x 1..6 blocks x 0..10 operations: Ics20Withdrawal transactions (plain and from \
               bridge accounts), incoming packets with amounts {1, small, escrow-1, escrow, escrow+1, \
               u128::MAX, not-a-number}, recipients (plain, compat prefix, wrong prefix, garbage, bridge \
               with matching / mismatching asset, disabled bridge), memos (none, valid, empty address, \
               over-long address, invalid), well-formed and malformed denoms, success / error \
               acknowledgements and timeouts of earlier withdrawals. Non-trivial: a receive addressed \
               to a bridge account that cannot be applied, or a refund exceeding the escrow",
        cases_quick: 1400,
        cases_thorough: 30_000,
        shards: 12,
        min_nontrivial: 0.1,
        max_shrink_iters: 200,
        strategy: Box::new(|_| hist::history(bias())),
        test: Box::new(case),
    }, Some(hist::simplifier()));
    s.finish()
}
