//! C14 — the validator set handed to CometBFT mirrors the application's and is never empty.
//!
//! Oracle: a model of CometBFT's validator set. Every update batch the application returns from
//! ending a block is folded into the model with CometBFT's rules (a batch that removes a key
//! CometBFT does not have, names a key twice, or empties the set cannot be applied). After every
//! commit the model must equal the set the application stores.

use std::collections::BTreeMap;

use vcommon::{
    vensure,
    CaseResult,
    Ctx,
    Prop,
    Session,
};

use crate::{
    hist::{
        self,
        AAction,
        AOp,
        Bias,
        Committed,
        EndBlockObs,
        History,
        Oracle,
    },
    world::{
        self,
        Dump,
        WORLD,
    },
};

pub struct C14Oracle {
    /// CometBFT's view: public key bytes -> power
    comet: BTreeMap<Vec<u8>, u64>,
    batches_with_updates: usize,
    /// validator updates executed in the block in progress, in order: (key, power)
    executed_in_block: Vec<(Vec<u8>, u32)>,
    /// was the block in progress executed with the pre-Aspen validator logic?
    block_is_pre_aspen: bool,
}

fn key_name(key: &[u8]) -> String {
    for (i, k) in WORLD.validator_keys.iter().enumerate() {
        if k.verification_key().as_bytes() == key {
            return format!("V{i}");
        }
    }
    hex::encode(&key[..4])
}

fn render(set: &BTreeMap<Vec<u8>, u64>) -> String {
    set.iter()
        .map(|(k, p)| format!("{}={p}", key_name(k)))
        .collect::<Vec<_>>()
        .join(",")
}

impl C14Oracle {
    pub fn new(genesis: &world::GenesisSpec) -> Self {
        let comet = genesis
            .validators()
            .into_iter()
            .map(|v| (v.verification_key.as_bytes().to_vec(), u64::from(v.power)))
            .collect();
        Self {
            comet,
            batches_with_updates: 0,
            executed_in_block: Vec::new(),
            block_is_pre_aspen: false,
        }
    }
}

impl Oracle for C14Oracle {
    fn on_tx(&mut self, obs: &hist::TxObs<'_>, _ctx: &mut Ctx) -> CaseResult {
        if let astria_sequencer::verif::TxOutcome::Executed(_) = obs.outcome {
            for action in &obs.tx.actions {
                if let astria_core::protocol::transaction::v1::Action::ValidatorUpdate(update) = action {
                    self.executed_in_block
                        .push((update.verification_key.as_bytes().to_vec(), update.power));
                }
            }
            // the pre-Aspen validator set key still exists <=> pre-Aspen logic is in force
            self.block_is_pre_aspen = obs.pre.verifiable.contains_key("authority/validator_set");
        }
        Ok(())
    }

    fn on_end_block(&mut self, obs: &EndBlockObs<'_>, ctx: &mut Ctx) -> CaseResult {
        let executed = std::mem::take(&mut self.executed_in_block);
        let updates = &obs.result.validator_updates;
        if updates.is_empty() {
            return Ok(());
        }
        self.batches_with_updates += 1;
        let mut seen = std::collections::BTreeSet::new();
        let mut next = self.comet.clone();
        for update in updates {
            let key = update.pub_key.to_bytes();
            let power = update.power.value();
            vensure!(
                seen.insert(key.clone()),
                "update-batch-names-key-twice",
                "height {}: the update batch names validator {} twice",
                obs.height,
                key_name(&key)
            );
            if power == 0 {
                if next.remove(&key).is_none() {
                    // CometBFT rejects the whole batch: "failed to find validator X to remove".
                    // One shape of this is a recorded finding: the key was *added* earlier in the
                    // same block (first executed update of the key has power > 0 while CometBFT
                    // did not have it) and removed again before the block ended.
                    let for_key: Vec<u32> = executed.iter().filter(|(k, _)| *k == key).map(|(_, p)| *p).collect();
                    let added_then_removed = !self.comet.contains_key(&key)
                        && for_key.first().is_some_and(|p| *p > 0)
                        && for_key.last() == Some(&0);
                    let signature = if added_then_removed {
                        "remove-of-validator-added-in-same-block"
                    } else {
                        "update-batch-removes-unknown-validator"
                    };
                    if ctx.tolerate(signature) {
                        ctx.label(format!("known:{signature}"));
                        continue;
                    }
                    vensure!(
                        false,
                        signature,
                        "height {}: the update batch removes validator {} which CometBFT does not have (CometBFT set: {}; batch: {})",
                        obs.height,
                        key_name(&key),
                        render(&self.comet),
                        updates
                            .iter()
                            .map(|u| format!("{}={}", key_name(&u.pub_key.to_bytes()), u.power.value()))
                            .collect::<Vec<_>>()
                            .join(",")
                    );
                }
            } else {
                next.insert(key, power);
            }
        }
        if next.is_empty() {
            // recorded finding: before the Aspen upgrade several removals in one block each pass
            // the "not the only validator" check against the set as it was at block start
            let removals = executed.iter().filter(|(_, p)| *p == 0).count();
            let signature = if self.block_is_pre_aspen && removals >= 2 {
                "pre-aspen-removals-in-one-block-empty-the-set"
            } else {
                "update-batch-empties-validator-set"
            };
            if ctx.tolerate(signature) {
                ctx.label(format!("known:{signature}"));
                // CometBFT would halt here; the rest of the history is meaningless
                self.comet = next;
                return Ok(());
            }
            vensure!(
                false,
                signature,
                "height {}: applying the update batch leaves CometBFT without validators (before: {})",
                obs.height,
                render(&self.comet)
            );
        }
        self.comet = next;
        Ok(())
    }

    fn on_committed(&mut self, height: u64, _dump: &Dump, committed: &Committed, ctx: &mut Ctx) -> CaseResult {
        if self.comet.is_empty() {
            return Ok(());
        }
        ctx.label(if committed.post_aspen {
            "checked-post-aspen-storage"
        } else {
            "checked-pre-aspen-storage"
        });
        let stored = match &committed.validators {
            Ok(stored) => stored,
            Err(e) => {
                vensure!(false, "validator-set-unreadable", "height {height}: cannot read the stored validator set: {e}");
                unreachable!()
            }
        };
        let stored_map: BTreeMap<Vec<u8>, u64> = stored
            .iter()
            .map(|v| (v.verification_key.as_bytes().to_vec(), u64::from(v.power)))
            .collect();
        vensure!(
            stored_map.len() == stored.len(),
            "stored-validator-set-has-duplicates",
            "height {height}: the stored validator set lists a key twice"
        );
        vensure!(
            stored_map == self.comet,
            "stored-set-differs-from-cometbft",
            "height {height}: the application stores [{}] but CometBFT, after applying all returned updates to the genesis set, has [{}]",
            render(&stored_map),
            render(&self.comet)
        );
        if committed.post_aspen {
            vensure!(
                committed.validator_count == Ok(stored_map.len() as u64),
                "stored-validator-count-wrong",
                "height {height}: stored validator count is {:?} but the set has {} members",
                committed.validator_count,
                stored_map.len()
            );
        }
        Ok(())
    }
}

fn bias() -> Bias {
    Bias {
        currency_pairs: 0,
        transfer: 1,
        rollup: 0,
        bridge: 0,
        ics20: 0,
        bridge_admin: 0,
        sudo: 1,
        validator: 12,
        ibc_in: 0,
        wrong_signer_pct: 6,
        bad_nonce_pct: 2,
        max_blocks: 8,
        max_ops: 5,
        max_actions: 4,
        bridge_genesis_pct: 0,
    }
}

fn same_key_twice_in_a_block(history: &History) -> bool {
    history.blocks.iter().any(|block| {
        let mut keys = Vec::new();
        for op in block {
            if let AOp::Tx(tx) = op {
                for a in &tx.actions {
                    if let AAction::ValidatorUpdate { key, .. } = a {
                        keys.push(*key as usize % world::N_VALIDATOR_KEYS);
                    }
                }
            }
        }
        let mut sorted = keys.clone();
        sorted.sort_unstable();
        sorted.dedup();
        sorted.len() < keys.len()
    })
}

fn case(history: &History, ctx: &mut Ctx) -> CaseResult {
    let mut oracle = C14Oracle::new(&history.genesis);
    let stats = world::block_on(hist::run(history, &mut oracle, ctx))?;
    ctx.set_nontrivial(same_key_twice_in_a_block(history) && oracle.batches_with_updates > 0);
    ctx.note("txs_executed", stats.txs_executed);
    ctx.note("update_batches", oracle.batches_with_updates);
    Ok(())
}

pub fn run(args: &[String]) -> ! {
    let mut s = Session::from_args("C14", "exploration", args);
    s.assume("CometBFT is modelled by its documented validator-update rules (remove of absent key, duplicate key in a batch and an empty resulting set are errors)");
    s.assume("no misbehaviour evidence is generated (excluded by the property)");
    s.assume("blocks are ended through App::end_block (the source of FinalizeBlock's validator_updates) and committed; the ABCI wrapper around it is covered by C05");
    s.run_prop_with(Prop {
        name: "histories",
        rule: "generated genesis with 1..4 validators x 1..8 blocks (crossing the Aspen activation height \
               1..3) x 0..5 transactions of 1..4 validator updates over a pool of 5 keys with powers \
               {0,1,5,2^31}: add, update, remove, add-then-remove, remove-then-add, repeated key, \
               remove-last; some by a wrong signer. Oracle: CometBFT model fold of every returned \
               batch; model == stored set and stored count after every commit. Non-trivial: a block \
               whose transactions name the same key at least twice and at least one non-empty batch",
        cases_quick: 1400,
        cases_thorough: 20_000,
        shards: 12,
        min_nontrivial: 0.1,
        max_shrink_iters: 200,
        strategy: Box::new(|_| hist::history(bias())),
        test: Box::new(case),
    }, Some(hist::simplifier()));
    s.finish()
}
