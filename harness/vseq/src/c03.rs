//! C03 — transactions are atomic and execute at most once, in nonce order.

use std::collections::BTreeSet;

use astria_sequencer::verif::TxOutcome;
use vcommon::{
    vensure,
    CaseResult,
    Ctx,
    Prop,
    Session,
};

use crate::hist::{
    self,
    Bias,
    History,
    Oracle,
    TxObs,
};

#[derive(Default)]
pub struct C03Oracle {
    succeeded: BTreeSet<[u8; 32]>,
    nontrivial: bool,
}

pub fn diff_summary(pre: &crate::world::Dump, post: &crate::world::Dump) -> String {
    let mut out = Vec::new();
    for (k, v) in &post.verifiable {
        match pre.verifiable.get(k) {
            None => out.push(format!("+{k}")),
            Some(old) if old != v => out.push(format!("~{k}")),
            _ => {}
        }
    }
    for k in pre.verifiable.keys() {
        if !post.verifiable.contains_key(k) {
            out.push(format!("-{k}"));
        }
    }
    for (k, v) in &post.nonverifiable {
        if pre.nonverifiable.get(k) != Some(v) {
            out.push(format!("~nv:{}", String::from_utf8_lossy(k)));
        }
    }
    for k in pre.nonverifiable.keys() {
        if !post.nonverifiable.contains_key(k) {
            out.push(format!("-nv:{}", String::from_utf8_lossy(k)));
        }
    }
    if pre.block_fees != post.block_fees {
        out.push(format!("block_fees {:?} -> {:?}", pre.block_fees, post.block_fees));
    }
    if pre.cached_deposits != post.cached_deposits {
        out.push(format!(
            "cached deposits {} -> {}",
            pre.cached_deposits.len(),
            post.cached_deposits.len()
        ));
    }
    out.truncate(12);
    out.join(", ")
}

impl Oracle for C03Oracle {
    fn on_tx(&mut self, obs: &TxObs<'_>, ctx: &mut Ctx) -> CaseResult {
        let tx = obs.tx;
        let pre_nonce = obs.pre.nonces.get(&tx.signer).copied().unwrap_or(0);
        let kinds: Vec<&str> = tx.actions.iter().map(hist::action_row).collect();
        match obs.outcome {
            TxOutcome::Executed(_) => {
                ctx.label("tx:executed");
                vensure!(
                    tx.nonce == pre_nonce,
                    "executed-with-wrong-nonce",
                    "height {}: tx {:?} with nonce {} executed while the signer's nonce was {}",
                    obs.height,
                    kinds,
                    tx.nonce,
                    pre_nonce
                );
                vensure!(
                    self.succeeded.insert(tx.id),
                    "executed-twice",
                    "height {}: the signed transaction {} ({:?}) took effect a second time",
                    obs.height,
                    hex::encode(tx.id),
                    kinds
                );
                let post_nonce = obs.post.nonces.get(&tx.signer).copied().unwrap_or(0);
                vensure!(
                    post_nonce == pre_nonce + 1,
                    "nonce-not-incremented-by-one",
                    "height {}: signer nonce went {} -> {} after a successful {:?}",
                    obs.height,
                    pre_nonce,
                    post_nonce,
                    kinds
                );
                for (account, nonce) in &obs.post.nonces {
                    if *account != tx.signer {
                        vensure!(
                            obs.pre.nonces.get(account).copied().unwrap_or(0) == *nonce,
                            "foreign-nonce-changed",
                            "height {}: nonce of another account changed during {:?}",
                            obs.height,
                            kinds
                        );
                    }
                }
                if tx.is_replay {
                    ctx.label("replay:executed(fresh-nonce)");
                }
            }
            failed => {
                let (label, message) = match failed {
                    TxOutcome::ConstructionFailed(m) => ("tx:construction-failed", m),
                    TxOutcome::FailedFatal(m) => ("tx:failed-fatal", m),
                    TxOutcome::FailedNonFatal(m) => ("tx:failed-nonfatal", m),
                    TxOutcome::Executed(_) => unreachable!(),
                };
                ctx.label(label);
                if tx.is_replay {
                    ctx.label("replay:rejected");
                }
                // which action failed? (diagnostic + non-triviality)
                if tx.actions.len() > 1 && !matches!(failed, TxOutcome::ConstructionFailed(_)) {
                    ctx.label("multi-action-tx-failed-in-execution");
                    self.nontrivial = true;
                }
                vensure!(
                    obs.pre == obs.post,
                    "failed-tx-left-writes",
                    "height {}: {:?} failed ({}) but the state changed: {}",
                    obs.height,
                    kinds,
                    message,
                    diff_summary(obs.pre, obs.post)
                );
            }
        }
        Ok(())
    }
}

fn bias() -> Bias {
    Bias {
        bad_nonce_pct: 25,
        wrong_signer_pct: 15,
        max_actions: 5,
        ..Bias::default()
    }
}

fn case(history: &History, ctx: &mut Ctx) -> CaseResult {
    let mut oracle = C03Oracle::default();
    let stats = crate::world::block_on(hist::run(history, &mut oracle, ctx))?;
    ctx.set_nontrivial(oracle.nontrivial);
    ctx.note("txs_built", stats.txs_built);
    ctx.note("txs_executed", stats.txs_executed);
    ctx.note("txs_failed", stats.txs_failed);
    Ok(())
}

pub fn run(args: &[String]) -> ! {
    let mut s = Session::from_args("C03", "exploration", args);
    s.assume("transactions are stepped through App::execute_transaction inside scratch blocks (begin_block / end_block / commit of the app state); the ABCI path around it is covered by C05/C06");
    s.assume("non-native balances, bridge accounts and two open ICS-20 channels are seeded through the crate's own state writers before the first block");
    s.run_prop_with(Prop {
        name: "histories",
        rule: "generated genesis x 1..6 blocks x 0..7 transactions (1..5 actions, every action type of the \
               generator, correct/stale/gapped nonces, byte-identical replays of earlier transactions, \
               wrong signers). Oracle: success => signer nonce +1 exactly, tx nonce == account nonce, \
               tx id never succeeded before; failure => full state dump (verifiable, non-verifiable, \
               block-fee pot, cached deposits) identical to before. Non-trivial: a multi-action \
               transaction that failed during execution (after construction succeeded)",
        cases_quick: 1200,
        cases_thorough: 20_000,
        shards: 12,
        min_nontrivial: 0.03,
        max_shrink_iters: 200,
        strategy: Box::new(|_| hist::history(bias())),
        test: Box::new(case),
    }, Some(hist::simplifier()));
    s.finish()
}
