//! C13 — the mempool keeps nonce order and never duplicates or silently loses a transaction.
//!
//! One node; operations are submissions through the real `CheckTx` service, re-submissions,
//! invalid-removals, blocks (built by `PrepareProposal`, finalized and committed, which runs the
//! real maintenance), fee changes (re-costing), clock advances (expiry) and bare maintenance runs.
//! After every operation the mempool's containers are dumped and the invariants of the property
//! are checked against the committed chain state.

use std::collections::{
    BTreeMap,
    BTreeSet,
};

use astria_core::protocol::transaction::v1::Action;
use astria_sequencer::verif::{
    MempoolDump,
    Node,
};
use proptest::prelude::*;
use serde::{
    Deserialize,
    Serialize,
};
use vcommon::{
    gen::U128,
    vensure,
    CaseResult,
    Ctx,
    Prop,
    Session,
    Tier,
};

use crate::{
    c01::short,
    hist::{
        self,
        AAction,
        ATx,
        Amt,
        BuiltTx,
        NonceMode,
        View,
        Who,
    },
    l1::{
        self,
        BlockCtx,
    },
    world::{
        self,
        GenesisSpec,
        WORLD,
    },
};

const ACCOUNTS: u8 = 4;

#[derive(Clone, Debug, Serialize, Deserialize)]
pub enum Op {
    /// a new transaction of `account` with nonce = (next free nonce of the account) + offset - 1
    Submit { account: u8, nonce_offset: u8, kind: Kind },
    Resubmit(u16),
    RemoveInvalid(u16),
    /// build, finalize and commit a block; `max_bytes` limits how much of the queue fits
    Block { max_bytes: u8 },
    AdvanceTime(u16),
    Maintenance,
}

#[derive(Clone, Debug, Serialize, Deserialize)]
pub enum Kind {
    /// transfer of n/256 of the balance to another account (asset 0 or 1)
    Transfer { to: u8, asset: u8, frac: u8 },
    /// transfer of (almost) everything: later transactions of the account become unaffordable
    Drain { to: u8, asset: u8 },
    Rollup { len: u32 },
    /// sudo changes the transfer / rollup fee (re-costing); signer is the sudo account (account 0)
    FeeChange { row: u8, base: u16, mult: u8 },
}

#[derive(Clone, Debug, Serialize, Deserialize)]
pub struct Case {
    pub parked_max: u8,
    pub balances: Vec<Vec<U128>>,
    pub ops: Vec<Op>,
}

fn kind() -> BoxedStrategy<Kind> {
    prop_oneof![
        8 => (0_u8..ACCOUNTS, 0_u8..2, 1_u8..200).prop_map(|(to, asset, frac)| Kind::Transfer { to, asset, frac }),
        2 => (0_u8..ACCOUNTS, 0_u8..2).prop_map(|(to, asset)| Kind::Drain { to, asset }),
        5 => prop_oneof![3 => 1_u32..40, 2 => 500_u32..4000, 2 => Just(120_000_u32), 2 => Just(200_000_u32)].prop_map(|len| Kind::Rollup { len }),
        3 => (0_u8..2, prop_oneof![Just(0_u16), Just(12), Just(400), Just(2500), Just(9000)], 0_u8..4)
            .prop_map(|(row, base, mult)| Kind::FeeChange { row, base, mult }),
    ]
    .boxed()
}

fn op() -> BoxedStrategy<Op> {
    prop_oneof![
        14 => (0_u8..ACCOUNTS, prop_oneof![6 => Just(1_u8), 1 => Just(0_u8), 3 => 2_u8..5], kind())
            .prop_map(|(account, nonce_offset, kind)| Op::Submit { account, nonce_offset, kind }),
        2 => any::<u16>().prop_map(Op::Resubmit),
        2 => any::<u16>().prop_map(Op::RemoveInvalid),
        7 => any::<u8>().prop_map(|max_bytes| Op::Block { max_bytes }),
        1 => prop_oneof![Just(10_u16), Just(120), Just(239), Just(241), Just(300)].prop_map(Op::AdvanceTime),
        1 => Just(Op::Maintenance),
    ]
    .boxed()
}

/// The shape that demotes: an account has two large rollup submissions ready, only the first
/// fits the sequenced-data limit of the next block, and the same block carries a fee increase
/// that makes the one left behind unaffordable.
fn demotion_script() -> BoxedStrategy<Vec<Op>> {
    (1_u8..ACCOUNTS, prop_oneof![Just(3_u8), Just(40)]).prop_map(|(account, mult)| {
        vec![
            Op::Submit { account, nonce_offset: 1, kind: Kind::Rollup { len: 200_000 } },
            Op::Submit { account, nonce_offset: 1, kind: Kind::Rollup { len: 120_000 } },
            Op::Submit { account: 0, nonce_offset: 1, kind: Kind::FeeChange { row: 1, base: 32, mult } },
            Op::Block { max_bytes: 0 },
        ]
    })
    .boxed()
}

/// A fee change by the sudo account immediately followed by a roomy block: the re-costing that
/// makes ready transactions unaffordable (demotion) or affordable again (promotion).
fn squeeze() -> BoxedStrategy<Vec<Op>> {
    (0_u8..2, prop_oneof![Just(0_u16), Just(12), Just(2500), Just(9000)], prop_oneof![Just(0_u8), Just(1), Just(3), Just(40)])
        .prop_map(|(row, base, mult)| {
            vec![
                Op::Submit {
                    account: 0,
                    nonce_offset: 1,
                    kind: Kind::FeeChange { row, base, mult },
                },
                Op::Block { max_bytes: 0 },
            ]
        })
        .boxed()
}

fn case(tier: Tier) -> BoxedStrategy<Case> {
    let max_ops = tier.pick(60, 100);
    (
        prop_oneof![Just(3_u8), Just(6), Just(40)],
        proptest::collection::vec(
            proptest::collection::vec(prop_oneof![1 => 3_000_u128..40_000, 1 => 300_000_u128..3_000_000].prop_map(U128), ACCOUNTS as usize),
            2,
        ),
        proptest::collection::vec(
            prop_oneof![20 => op().prop_map(|o| vec![o]), 2 => squeeze(), 1 => demotion_script()],
            10..=max_ops,
        ),
    )
        .prop_map(|(parked_max, balances, ops)| Case {
            parked_max,
            balances,
            ops: ops.into_iter().flatten().collect(),
        })
        .boxed()
}

fn simplify(case: &Case) -> Vec<Case> {
    (0..case.ops.len())
        .rev()
        .map(|i| {
            let mut c = case.clone();
            c.ops.remove(i);
            c
        })
        .collect()
}

fn genesis_for(case: &Case) -> GenesisSpec {
    let mut balances = vec![vec![U128(0); world::N_KEYS]; world::N_ASSETS];
    for asset in 0..2 {
        for account in 0..ACCOUNTS as usize {
            balances[asset][account] = case.balances[asset][account];
        }
    }
    let mut fees = vec![Some((U128(0), U128(0))); 18];
    fees[0] = Some((U128(12), U128(0))); // transfer
    fees[1] = Some((U128(32), U128(1))); // rollup data
    GenesisSpec {
        sudo: 0,
        ibc_sudo: 0,
        relayers: 0,
        balances,
        fees,
        fee_assets: 0b11,
        bridges: vec![None; 3],
        aspen: 0,
        blackburn_after: 0,
        validators: vec![(0, 10)],
    }
}

struct Tracked {
    tx: BuiltTx,
    /// CheckTx accepted it at least once and its last known fate has not been reported to the
    /// submitter yet
    outstanding: bool,
}

/// What the transaction costs according to the fee table in `view`, computed from its actions.
fn expected_costs(tx: &BuiltTx, view: &View) -> BTreeMap<String, u128> {
    let mut out: BTreeMap<String, u128> = BTreeMap::new();
    for action in &tx.actions {
        if let Some((row, fee_asset, size)) = hist::fee_row_and_size(action) {
            if let Some(Some((base, mult))) = view.fee_table.get(row) {
                let fee = base.saturating_add(mult.saturating_mul(size));
                let e = out.entry(fee_asset.to_ibc_prefixed().to_string()).or_default();
                *e = e.saturating_add(fee);
            }
        }
        if let Action::Transfer(t) = action {
            let e = out.entry(t.asset.to_ibc_prefixed().to_string()).or_default();
            *e = e.saturating_add(t.amount);
        }
    }
    out
}

async fn check_invariants(
    node: &Node,
    dump: &MempoolDump,
    tracked: &[Tracked],
    parked_max: usize,
    after_maintenance: bool,
    what: &str,
) -> CaseResult {
    let state = node.state();
    let chain = world::dump(state).await;
    let view = View::read(state).await;
    // ---- exactly one place -----------------------------------------------------------------
    let pending_ids: BTreeSet<[u8; 32]> = dump.pending.iter().map(|e| e.tx_id.get()).collect();
    let parked_ids: BTreeSet<[u8; 32]> = dump.parked.iter().map(|e| e.tx_id.get()).collect();
    vensure!(
        pending_ids.len() == dump.pending.len() && parked_ids.len() == dump.parked.len(),
        "transaction-held-twice",
        "after {what}: a transaction id occurs twice inside one container"
    );
    vensure!(
        pending_ids.is_disjoint(&parked_ids),
        "transaction-both-ready-and-parked",
        "after {what}: a transaction is ready and parked at the same time"
    );
    let contained: BTreeSet<[u8; 32]> = dump.contained.iter().map(|id| id.get()).collect();
    let union: BTreeSet<[u8; 32]> = pending_ids.union(&parked_ids).copied().collect();
    vensure!(
        contained == union,
        "contained-set-differs-from-containers",
        "after {what}: the mempool believes it contains {} transactions but holds {} ({} ready, {} parked)",
        contained.len(),
        union.len(),
        pending_ids.len(),
        parked_ids.len()
    );
    // ---- nothing silently lost ---------------------------------------------------------------
    for t in tracked.iter().filter(|t| t.outstanding) {
        let status = node
            .mempool_transaction_status(&astria_core::primitive::v1::TransactionId::new(t.tx.id))
            .await;
        vensure!(
            status.is_some(),
            "accepted-transaction-silently-lost",
            "after {what}: the accepted transaction of {} with nonce {} is neither ready, parked, nor reported as removed",
            short(&t.tx.signer),
            t.tx.nonce
        );
    }
    // ---- ready transactions: consecutive from the account nonce, jointly affordable -------------
    let mut by_account: BTreeMap<[u8; 20], Vec<&astria_sequencer::verif::MempoolEntry>> = BTreeMap::new();
    for e in &dump.pending {
        by_account.entry(e.address).or_default().push(e);
    }
    for (account, entries) in &by_account {
        let chain_nonce = chain.nonces.get(account).copied().unwrap_or(0);
        for (i, e) in entries.iter().enumerate() {
            vensure!(
                e.nonce == chain_nonce + i as u32,
                "ready-nonces-not-consecutive-from-account-nonce",
                "after {what}: ready transactions of {} have nonces {:?} but the account nonce is {chain_nonce}",
                short(account),
                entries.iter().map(|e| e.nonce).collect::<Vec<_>>()
            );
        }
        let mut total: BTreeMap<String, u128> = BTreeMap::new();
        for e in entries {
            // the recorded cost must be what the current fee table implies for the actions
            if let Some(t) = tracked.iter().find(|t| t.tx.id == e.tx_id.get()) {
                let expected = expected_costs(&t.tx, &view);
                let recorded: BTreeMap<String, u128> =
                    e.costs.iter().filter(|(_, c)| *c != 0).map(|(a, c)| (a.to_string(), *c)).collect();
                let expected: BTreeMap<String, u128> = expected.into_iter().filter(|(_, c)| *c != 0).collect();
                vensure!(
                    recorded == expected,
                    "recorded-cost-differs-from-fee-table",
                    "after {what}: ready transaction of {} nonce {} is costed {:?} but fees and transfers amount to {:?}",
                    short(account),
                    e.nonce,
                    recorded,
                    expected
                );
            }
            for (asset, cost) in &e.costs {
                let t = total.entry(asset.to_string()).or_default();
                *t = t.saturating_add(*cost);
            }
        }
        for (asset, cost) in total {
            let balance = chain.balances.get(&(*account, asset.clone())).copied().unwrap_or(0);
            vensure!(
                cost <= balance,
                "ready-transactions-not-affordable",
                "after {what}: the ready transactions of {} cost {cost} of {} but the account holds {balance}",
                short(account),
                crate::c01::asset_name(&asset)
            );
        }
    }
    // ---- block building order -------------------------------------------------------------------
    let queue = node.mempool_builder_queue().await;
    let group_of: BTreeMap<[u8; 32], &String> = dump.pending.iter().map(|e| (e.tx_id.get(), &e.group)).collect();
    let mut last_nonce: BTreeMap<([u8; 20], String), u32> = BTreeMap::new();
    for (id, account, nonce) in &queue {
        let group = group_of.get(&id.get()).map(|g| (*g).clone()).unwrap_or_default();
        if let Some(prev) = last_nonce.get(&(*account, group.clone())) {
            vensure!(
                prev < nonce,
                "builder-queue-places-higher-nonce-first",
                "after {what}: the block building order places nonce {prev} of {} before nonce {nonce} (group {group})",
                short(account)
            );
        }
        last_nonce.insert((*account, group), *nonce);
    }
    vensure!(
        queue.len() == dump.pending.len(),
        "builder-queue-differs-from-ready-set",
        "after {what}: the block building queue has {} entries but {} transactions are ready",
        queue.len(),
        dump.pending.len()
    );
    // ---- after maintenance: no used nonce remains; parked limits ----------------------------------
    if after_maintenance {
        for e in dump.pending.iter().chain(&dump.parked) {
            let chain_nonce = chain.nonces.get(&e.address).copied().unwrap_or(0);
            vensure!(
                e.nonce >= chain_nonce,
                "stale-nonce-survived-maintenance",
                "after {what}: a transaction of {} with nonce {} remains although the account nonce is {chain_nonce}",
                short(&e.address),
                e.nonce
            );
        }
    }
    let mut parked_per_account: BTreeMap<[u8; 20], usize> = BTreeMap::new();
    for e in &dump.parked {
        *parked_per_account.entry(e.address).or_default() += 1;
    }
    vensure!(
        parked_per_account.values().all(|n| *n <= 15) && dump.parked.len() <= parked_max,
        "parked-limit-exceeded",
        "after {what}: {} transactions are parked (limit {parked_max}; per account {:?}, limit 15)",
        dump.parked.len(),
        parked_per_account.values().collect::<Vec<_>>()
    );
    Ok(())
}

async fn run_case(case: &Case, ctx: &mut Ctx) -> CaseResult {
    let genesis = genesis_for(case);
    let mut node = world::boot(&genesis, case.parked_max as usize).await;
    let mut height = 0_u64;
    let mut tracked: Vec<Tracked> = Vec::new();
    let mut built: Vec<BuiltTx> = Vec::new();
    let (mut promotions, mut demotions, mut removals) = (0, 0, 0);
    let mut previous = node.mempool_dump().await;
    for (step, op) in case.ops.iter().enumerate() {
        let mut after_maintenance = false;
        let what = format!("op {step} ({op:?})");
        match op {
            Op::Submit { account, nonce_offset, kind } => {
                let account = *account as usize % ACCOUNTS as usize;
                let signer = WORLD.addr_bytes(account);
                let pre = world::dump(node.state()).await;
                let view = View::read(node.state()).await;
                // next free nonce = account nonce + number of this account's transactions held
                let held: BTreeSet<u32> = previous
                    .pending
                    .iter()
                    .chain(&previous.parked)
                    .filter(|e| e.address == signer)
                    .map(|e| e.nonce)
                    .collect();
                let chain_nonce = pre.nonces.get(&signer).copied().unwrap_or(0);
                // the lowest nonce from the account nonce upwards that the mempool does not hold:
                // offset 1 fills the first gap (promoting what is parked behind it)
                let mut next_free = chain_nonce;
                while held.contains(&next_free) {
                    next_free += 1;
                }
                let nonce = (next_free + u32::from(*nonce_offset)).saturating_sub(1);
                let (signer_who, action) = match kind {
                    Kind::Transfer { to, asset, frac } => (
                        Who::Key(account as u8),
                        AAction::Transfer { to: *to % ACCOUNTS, asset: *asset % 2, amt: Amt::Frac(*frac / 4), fee: *asset % 2 },
                    ),
                    Kind::Drain { to, asset } => (
                        Who::Key(account as u8),
                        AAction::Transfer { to: *to % ACCOUNTS, asset: *asset % 2, amt: Amt::Frac(250), fee: *asset % 2 },
                    ),
                    Kind::Rollup { len } => (Who::Key(account as u8), AAction::BigRollup { rollup: 0, len: *len, fee: 0 }),
                    Kind::FeeChange { row, base, mult } => (
                        Who::Key(0),
                        AAction::FeeChange { row: *row % 2, base: U128(u128::from(*base)), mult: U128(u128::from(*mult)) },
                    ),
                };
                let atx = ATx { signer: signer_who, from: account as u8, nonce: NonceMode::Correct, actions: vec![action] };
                // bind with the chosen nonce
                let mut pre_for_nonce = pre.clone();
                let actual_signer = if matches!(kind, Kind::FeeChange { .. }) { WORLD.addr_bytes(0) } else { signer };
                if actual_signer == signer {
                    pre_for_nonce.nonces.insert(actual_signer, nonce);
                } else {
                    // the sudo account's own sequence
                    let held0: BTreeSet<u32> = previous.pending.iter().chain(&previous.parked).filter(|e| e.address == actual_signer).map(|e| e.nonce).collect();
                    let mut n0 = pre.nonces.get(&actual_signer).copied().unwrap_or(0);
                    while held0.contains(&n0) {
                        n0 += 1;
                    }
                    pre_for_nonce.nonces.insert(actual_signer, n0);
                }
                let Some(tx) = hist::concretize(&atx, &view, &pre_for_nonce, &built, height) else {
                    ctx.label("noop:unbuildable");
                    continue;
                };
                let response = node.check_tx(tx.bytes.clone(), false).await;
                tokio::time::advance(std::time::Duration::from_millis(1)).await;
                ctx.label(if response.code.is_ok() { "submit:accepted" } else { "submit:refused" });
                if let Some(existing) = tracked.iter_mut().find(|t| t.tx.id == tx.id) {
                    // byte-identical to an earlier submission: this CheckTx told the submitter the
                    // fate of that transaction (and consumed a pending removal report)
                    let status = node
                        .mempool_transaction_status(&astria_core::primitive::v1::TransactionId::new(tx.id))
                        .await;
                    existing.outstanding =
                        response.code.is_ok() && matches!(status.as_deref(), Some("pending" | "parked"));
                    ctx.label("submit:identical-to-earlier");
                } else {
                    tracked.push(Tracked { outstanding: response.code.is_ok(), tx: tx.clone() });
                    built.push(tx);
                }
            }
            Op::Resubmit(sel) => {
                if tracked.is_empty() {
                    continue;
                }
                let i = vcommon::gen::pick_index(*sel, tracked.len());
                let response = node.check_tx(tracked[i].tx.bytes.clone(), true).await;
                tokio::time::advance(std::time::Duration::from_millis(1)).await;
                // whatever the answer, the submitter has now been told the transaction's fate
                let status = node
                    .mempool_transaction_status(&astria_core::primitive::v1::TransactionId::new(tracked[i].tx.id))
                    .await;
                tracked[i].outstanding = response.code.is_ok() && matches!(status.as_deref(), Some("pending" | "parked"));
                ctx.label("resubmit");
            }
            Op::RemoveInvalid(sel) => {
                let held: Vec<usize> = tracked
                    .iter()
                    .enumerate()
                    .filter(|(_, t)| previous.contained.iter().any(|id| id.get() == t.tx.id))
                    .map(|(i, _)| i)
                    .collect();
                if held.is_empty() {
                    continue;
                }
                let i = held[vcommon::gen::pick_index(*sel, held.len())];
                let _ = node.mempool_remove_invalid(tracked[i].tx.bytes.clone(), "harness says invalid").await;
                removals += 1;
                ctx.label("remove-invalid");
            }
            Op::Block { max_bytes } => {
                height += 1;
                let max_tx_bytes = match max_bytes % 4 {
                    0 => 1_000_000,
                    1 => 6_000,
                    2 => 1_500,
                    _ => 500 + i64::from(*max_bytes),
                };
                let ve = l1::vote_extensions_enabled(&genesis, height);
                let last_commit = if ve {
                    Some(l1::extended_commit(&l1::committed_validators(&node).await, &[], height - 1, 0))
                } else {
                    None
                };
                let bc = BlockCtx { height, round: 0, max_tx_bytes, last_commit };
                let block = match node.prepare_proposal(bc.prepare_request()).await {
                    Ok(r) => r.txs,
                    Err(_) => {
                        height -= 1;
                        ctx.label("noop:prepare-refused");
                        continue;
                    }
                };
                node.process_proposal(bc.process_request(block.clone()))
                    .await
                    .map_err(|e| vcommon::Failure::new("honest-proposal-rejected", format!("{what}: {e}")))?;
                if let Err(e) = node.finalize_block(bc.finalize_request(block)).await {
                    if l1::is_fee_recipient_overflow(&e) {
                        ctx.label("history-ends:fee-recipient-balance-would-exceed-u128");
                        return Ok(());
                    }
                    return Err(vcommon::Failure::new("finalize-failed", format!("{what}: {e}")));
                }
                node.commit().await.map_err(|e| vcommon::Failure::new("commit-failed", e))?;
                after_maintenance = true;
                ctx.label("block");
            }
            Op::AdvanceTime(secs) => {
                tokio::time::advance(std::time::Duration::from_secs(u64::from(*secs))).await;
                ctx.label("advance-time");
            }
            Op::Maintenance => {
                node.mempool_run_maintenance(false, height).await;
                after_maintenance = true;
                ctx.label("maintenance");
            }
        }
        let dump = node.mempool_dump().await;
        // movements since the previous dump (classification only)
        let was_parked: BTreeSet<[u8; 32]> = previous.parked.iter().map(|e| e.tx_id.get()).collect();
        let was_pending: BTreeSet<[u8; 32]> = previous.pending.iter().map(|e| e.tx_id.get()).collect();
        promotions += dump.pending.iter().filter(|e| was_parked.contains(&e.tx_id.get())).count();
        demotions += dump.parked.iter().filter(|e| was_pending.contains(&e.tx_id.get())).count();
        let before: BTreeSet<&String> = previous.removal_cache.iter().map(|(_, r)| r).collect();
        if dump.removal_cache.iter().any(|(_, r)| r.contains("expired") && !before.contains(r)) {
            removals += 1;
            ctx.label("expiry");
        }
        check_invariants(&node, &dump, &tracked, case.parked_max as usize, after_maintenance, &what).await?;
        previous = dump;
    }
    if promotions > 0 {
        ctx.label("promotion");
    }
    if demotions > 0 {
        ctx.label("demotion");
    }
    ctx.set_nontrivial(promotions > 0 && demotions > 0 && removals > 0);
    Ok(())
}

pub fn run(args: &[String]) -> ! {
    let mut s = Session::from_args("C13", "exploration", args);
    s.assume("chain state changes only through committed blocks, each followed by the real maintenance run (the commit / CheckTx race window is excluded by construction)");
    s.assume("the clock is the paused tokio clock, advanced by the harness (1 ms after every submission)");
    s.run_prop_with(
        Prop {
            name: "mempool_histories",
            rule: "4 accounts x 2 assets; 10..60 (thorough 100) operations: submissions through CheckTx (nonce \
                   offsets -1..+3, transfers of a fraction / almost all of the balance, small and large rollup \
                   data, sudo fee changes), re-submissions, invalid-removals, blocks built by PrepareProposal \
                   under byte limits from 500 B to 1 MB then finalized and committed (runs the real \
                   maintenance, re-costing after fee changes), clock advances up to 300 s (TTL 240 s), bare \
                   maintenance; total parked limit 3, 6 or 40. Invariants after every operation: one place \
                   per transaction; contained == ready + parked; every accepted transaction is ready, parked \
                   or reported removed; ready nonces consecutive from the account nonce, costed as the fee \
                   table implies and jointly affordable; building order keeps nonce order per account and \
                   group; no used nonce after maintenance; parked limits. Non-trivial: >= 1 promotion, >= 1 \
                   demotion and >= 1 expiry or invalid-removal",
            cases_quick: 800,
            cases_thorough: 12_000,
            shards: 12,
            min_nontrivial: 0.02,
            max_shrink_iters: 100,
            strategy: Box::new(case),
            test: Box::new(|case, ctx| world::block_on(run_case(case, ctx))),
        },
        Some(Box::new(simplify)),
    );
    s.finish()
}
