//! C01 — ledger conservation; fees are exact and fully routed.
//!
//! Oracle: a reference model written here predicts, from the concrete actions of a transaction
//! and the fee table read *before* the transaction, the exact change of every balance, every
//! escrow account and the block-fee pot (arbitrary precision). The real state after the
//! transaction must show exactly these changes and nothing else; the `tx.fees` events must list
//! exactly the predicted fees; at the end of the block the pot must be credited to the fee
//! recipient and nothing else may move.

use std::collections::BTreeMap;

use astria_core::protocol::transaction::v1::Action;
use astria_sequencer::verif::TxOutcome;
use num_bigint::BigInt;
use vcommon::{
    vensure,
    vfail,
    CaseResult,
    Ctx,
    Prop,
    Session,
};

use crate::{
    hist::{
        self,
        i128w,
        Bias,
        EndBlockObs,
        History,
        IbcKind,
        IbcObs,
        Oracle,
        TxObs,
    },
    world::{
        Dump,
        WORLD,
    },
};

#[derive(Default)]
pub struct C01Oracle {
    /// successful fee paying transactions in the current block: signer set
    fee_payers_in_block: std::collections::BTreeSet<[u8; 20]>,
    fee_txs_in_block: usize,
    nontrivial: bool,
    /// sum over the block of predicted fees per asset
    block_fees_model: BTreeMap<String, BigInt>,
}

pub fn short(addr: &[u8; 20]) -> String {
    match WORLD.key_of(addr) {
        Some(k) => format!("K{k}"),
        None => hex::encode(&addr[..4]),
    }
}

pub fn asset_name(ibc: &str) -> String {
    for i in 0..crate::world::N_ASSETS {
        if WORLD.asset_ibc(i).to_string() == ibc {
            return WORLD.asset(i).to_string();
        }
    }
    ibc.to_string()
}

/// `post - pre` for all balances, as signed big integers; zero entries omitted
pub fn balance_deltas(pre: &Dump, post: &Dump) -> BTreeMap<([u8; 20], String), BigInt> {
    let mut out = BTreeMap::new();
    for (k, v) in &post.balances {
        let before = pre.balances.get(k).copied().unwrap_or(0);
        let d = i128w::u(*v) - i128w::u(before);
        if d != BigInt::from(0) {
            out.insert(k.clone(), d);
        }
    }
    for (k, v) in &pre.balances {
        if !post.balances.contains_key(k) && *v != 0 {
            out.insert(k.clone(), -i128w::u(*v));
        }
    }
    out
}

pub fn escrow_deltas(pre: &Dump, post: &Dump) -> BTreeMap<(String, String), BigInt> {
    let mut out = BTreeMap::new();
    for (k, v) in &post.escrow {
        let before = pre.escrow.get(k).copied().unwrap_or(0);
        let d = i128w::u(*v) - i128w::u(before);
        if d != BigInt::from(0) {
            out.insert(k.clone(), d);
        }
    }
    for (k, v) in &pre.escrow {
        if !post.escrow.contains_key(k) && *v != 0 {
            out.insert(k.clone(), -i128w::u(*v));
        }
    }
    out
}

pub fn pot_deltas(pre: &Dump, post: &Dump) -> BTreeMap<String, BigInt> {
    let mut out = BTreeMap::new();
    for (k, v) in &post.block_fees {
        let d = i128w::u(*v) - i128w::u(pre.block_fees.get(k).copied().unwrap_or(0));
        if d != BigInt::from(0) {
            out.insert(k.clone(), d);
        }
    }
    for (k, v) in &pre.block_fees {
        if !post.block_fees.contains_key(k) && *v != 0 {
            out.insert(k.clone(), -i128w::u(*v));
        }
    }
    out
}

fn render_balances(map: &BTreeMap<([u8; 20], String), BigInt>) -> String {
    map.iter()
        .map(|((a, asset), d)| format!("{}:{}:{:+}", short(a), asset_name(asset), d))
        .collect::<Vec<_>>()
        .join(" ")
}

/// Predicted fee of every action, in order: `(position, action row, asset ibc text, amount)`.
/// `Err(why)` if the transaction must fail because of fees.
pub fn predicted_fees(obs: &TxObs<'_>) -> Result<Vec<(u64, &'static str, String, BigInt)>, String> {
    let mut out = Vec::new();
    // a FeeChange takes effect for the following actions of the same transaction
    let mut fee_table = obs.view.fee_table.clone();
    for (position, action) in obs.tx.actions.iter().enumerate() {
        let row = hist::action_row(action);
        // an action whose fee row is unset is disabled altogether
        let Some(components) = fee_table.get(row).copied().flatten() else {
            return Err(format!("action {row} is disabled"));
        };
        if let Action::FeeChange(change) = action {
            let (changed_row, base, mult) = hist::fee_change_parts(change);
            fee_table.insert(changed_row, Some((base, mult)));
        }
        let Some((_, fee_asset, size)) = hist::fee_row_and_size(action) else {
            continue;
        };
        let asset = fee_asset.to_ibc_prefixed().to_string();
        if !obs.view.fee_assets.contains(&asset) {
            return Err(format!("fee asset {fee_asset} is not allowed"));
        }
        let (base, mult) = components;
        let fee = i128w::u(base) + i128w::u(mult) * i128w::u(size);
        out.push((position as u64, row, asset, fee));
    }
    Ok(out)
}

impl Oracle for C01Oracle {
    fn on_tx(&mut self, obs: &TxObs<'_>, ctx: &mut Ctx) -> CaseResult {
        let kinds: Vec<&str> = obs.tx.actions.iter().map(hist::action_row).collect();
        let TxOutcome::Executed(events) = obs.outcome else {
            // failed transactions must not move anything (also C03); checked here for value only
            let moved = balance_deltas(obs.pre, obs.post);
            vensure!(
                moved.is_empty()
                    && escrow_deltas(obs.pre, obs.post).is_empty()
                    && pot_deltas(obs.pre, obs.post).is_empty(),
                "failed-tx-moved-value",
                "height {}: failed transaction {:?} moved value: {}",
                obs.height,
                kinds,
                render_balances(&moved)
            );
            return Ok(());
        };
        // ---- reference model -------------------------------------------------------------
        let fees = match predicted_fees(obs) {
            Ok(fees) => fees,
            Err(why) => vfail!(
                "executed-although-fee-unpayable",
                "height {}: {:?} executed although {why}",
                obs.height,
                kinds
            ),
        };
        let mut effects = hist::Effects::default();
        for action in &obs.tx.actions {
            hist::explicit_effects(action, &obs.tx.signer, obs.view, &mut effects);
        }
        let mut pot_expected: BTreeMap<String, BigInt> = BTreeMap::new();
        for (_, _, asset, fee) in &fees {
            *effects
                .balance
                .entry((obs.tx.signer, asset.clone()))
                .or_default() -= fee.clone();
            *pot_expected.entry(asset.clone()).or_default() += fee.clone();
            vensure!(
                *fee <= i128w::u(u128::MAX),
                "fee-exceeds-u128-but-charged",
                "height {}: {:?} executed although its fee base + multiplier x size = {fee} does not fit the ledger's amount type",
                obs.height,
                kinds
            );
        }
        effects.balance.retain(|_, d| *d != BigInt::from(0));
        effects.escrow.retain(|_, d| *d != BigInt::from(0));
        pot_expected.retain(|_, d| *d != BigInt::from(0));

        // ---- compare with the real state -------------------------------------------------
        let real_balances = balance_deltas(obs.pre, obs.post);
        vensure!(
            real_balances == effects.balance,
            "balance-change-differs-from-model",
            "height {}: {:?} signed by {}: balances changed by [{}] but the actions and the fee table imply [{}]",
            obs.height,
            kinds,
            short(&obs.tx.signer),
            render_balances(&real_balances),
            render_balances(&effects.balance)
        );
        let real_escrow = escrow_deltas(obs.pre, obs.post);
        vensure!(
            real_escrow == effects.escrow,
            "escrow-change-differs-from-model",
            "height {}: {:?}: escrow changed by {:?}, expected {:?}",
            obs.height,
            kinds,
            real_escrow,
            effects.escrow
        );
        let real_pot = pot_deltas(obs.pre, obs.post);
        vensure!(
            real_pot == pot_expected,
            "fee-pot-change-differs-from-model",
            "height {}: {:?}: block fee pot changed by {:?}, expected {:?}",
            obs.height,
            kinds,
            real_pot,
            pot_expected
        );
        // the reported fee events are exactly the predicted fees, in order
        let reported = hist::fee_events(events);
        let expected: Vec<(String, u128, u64)> = fees
            .iter()
            .map(|(pos, _, asset, fee)| (asset.clone(), u128::try_from(fee.clone()).unwrap(), *pos))
            .collect();
        let got: Vec<(String, u128, u64)> = reported
            .iter()
            .map(|(_, asset, amount, pos)| (asset.clone(), *amount, *pos))
            .collect();
        vensure!(
            got == expected,
            "fee-events-differ-from-model",
            "height {}: {:?}: tx.fees events {:?} but base + multiplier x size gives {:?}",
            obs.height,
            kinds,
            got,
            expected
        );
        // conservation per asset follows from the three equalities; it is re-stated explicitly:
        // sum(balances) + sum(escrow) + pot changes by -(burned) only (burn = outgoing transfer of
        // an asset that is foreign on that channel)
        let mut burned: BTreeMap<String, BigInt> = BTreeMap::new();
        for action in &obs.tx.actions {
            if let Action::Ics20Withdrawal(w) = action {
                if !hist::is_escrowed_on(&w.denom, &w.source_channel.to_string()) {
                    *burned.entry(w.denom.to_ibc_prefixed().to_string()).or_default() +=
                        i128w::u(w.amount);
                }
            }
        }
        let mut total: BTreeMap<String, BigInt> = BTreeMap::new();
        for ((_, asset), d) in &real_balances {
            *total.entry(asset.clone()).or_default() += d.clone();
        }
        for ((_, asset), d) in &real_escrow {
            *total.entry(asset.clone()).or_default() += d.clone();
        }
        for (asset, d) in &real_pot {
            *total.entry(asset.clone()).or_default() += d.clone();
        }
        for (asset, b) in &burned {
            *total.entry(asset.clone()).or_default() += b.clone();
        }
        total.retain(|_, d| *d != BigInt::from(0));
        vensure!(
            total.is_empty(),
            "value-created-or-destroyed",
            "height {}: {:?}: total supply changed by {:?}",
            obs.height,
            kinds,
            total
        );
        if !fees.is_empty() {
            self.fee_txs_in_block += 1;
            self.fee_payers_in_block.insert(obs.tx.signer);
            for (_, _, asset, fee) in &fees {
                *self.block_fees_model.entry(asset.clone()).or_default() += fee.clone();
            }
            ctx.label("fee-paying-tx");
        }
        if obs.tx.actions.iter().any(|a| matches!(a, Action::FeeChange(_) | Action::FeeAssetChange(_))) {
            ctx.label("fee-schedule-changed-in-history");
        }
        Ok(())
    }

    fn on_ibc(&mut self, obs: &IbcObs<'_>, ctx: &mut Ctx) -> CaseResult {
        // value may only appear/disappear by exactly the packet amount, and only for an asset
        // that is foreign on the packet's channel (mint on receive / re-mint on refund)
        let real_balances = balance_deltas(obs.pre, obs.post);
        let real_escrow = escrow_deltas(obs.pre, obs.post);
        vensure!(
            pot_deltas(obs.pre, obs.post).is_empty(),
            "ibc-touched-fee-pot",
            "height {}: an IBC packet changed the block fee pot",
            obs.height
        );
        let mut total: BTreeMap<String, BigInt> = BTreeMap::new();
        for ((_, asset), d) in &real_balances {
            *total.entry(asset.clone()).or_default() += d.clone();
        }
        for ((_, asset), d) in &real_escrow {
            *total.entry(asset.clone()).or_default() += d.clone();
        }
        total.retain(|_, d| *d != BigInt::from(0));
        let minted_allowed: BTreeMap<String, BigInt> = match (&obs.info.local_asset, obs.info.amount) {
            (Some(asset), Some(amount)) if !hist::is_escrowed_on(asset, &obs.info.channel) => {
                let mut m = BTreeMap::new();
                if amount != 0 {
                    m.insert(asset.to_ibc_prefixed().to_string(), i128w::u(amount));
                }
                m
            }
            _ => BTreeMap::new(),
        };
        let kind = match obs.kind {
            IbcKind::Recv => "recv",
            IbcKind::Ack { .. } => "ack",
            IbcKind::Timeout => "timeout",
        };
        vensure!(
            total.is_empty() || total == minted_allowed,
            "ibc-value-created-or-destroyed",
            "height {}: {kind} of packet {}: total supply changed by {:?}, only {:?} may be minted",
            obs.height,
            String::from_utf8_lossy(&obs.info.packet.data),
            total,
            minted_allowed
        );
        if !total.is_empty() {
            ctx.label("ibc-mint");
        }
        Ok(())
    }

    fn on_end_block(&mut self, obs: &EndBlockObs<'_>, ctx: &mut Ctx) -> CaseResult {
        // the pot accumulated over the block equals the sum of the predicted fees
        let pot: BTreeMap<String, BigInt> = obs
            .pre
            .block_fees
            .iter()
            .filter(|(_, v)| **v != 0)
            .map(|(k, v)| (k.clone(), i128w::u(*v)))
            .collect();
        let mut model = std::mem::take(&mut self.block_fees_model);
        model.retain(|_, d| *d != BigInt::from(0));
        vensure!(
            pot == model,
            "block-fee-pot-differs-from-sum-of-fees",
            "height {}: pot at the end of the block {:?}, sum of charged fees {:?}",
            obs.height,
            pot,
            model
        );
        // ending the block credits the pot to the fee recipient (the sudo address at that moment)
        let mut expected: BTreeMap<([u8; 20], String), BigInt> = BTreeMap::new();
        for (asset, amount) in &pot {
            expected.insert((obs.view.sudo, asset.clone()), amount.clone());
        }
        let real = balance_deltas(obs.pre, obs.post);
        vensure!(
            real == expected,
            "fees-not-routed-to-recipient",
            "height {}: ending the block changed balances by [{}], expected the pot to go to the fee recipient {}: [{}]",
            obs.height,
            render_balances(&real),
            short(&obs.view.sudo),
            render_balances(&expected)
        );
        vensure!(
            escrow_deltas(obs.pre, obs.post).is_empty(),
            "end-block-moved-escrow",
            "height {}: ending the block changed an escrow balance",
            obs.height
        );
        if self.fee_txs_in_block >= 2 && self.fee_payers_in_block.len() >= 2 {
            self.nontrivial = true;
            ctx.label("block-with-2+-fee-txs-2+-signers");
        }
        self.fee_txs_in_block = 0;
        self.fee_payers_in_block.clear();
        Ok(())
    }
}

fn bias() -> Bias {
    Bias {
        currency_pairs: 0,
        transfer: 10,
        rollup: 7,
        bridge: 8,
        ics20: 4,
        bridge_admin: 2,
        sudo: 5,
        validator: 1,
        ibc_in: 3,
        wrong_signer_pct: 8,
        bad_nonce_pct: 4,
        max_blocks: 6,
        max_ops: 8,
        max_actions: 4,
        bridge_genesis_pct: 70,
    }
}

fn case(history: &History, ctx: &mut Ctx) -> CaseResult {
    let mut oracle = C01Oracle::default();
    let stats = crate::world::block_on(hist::run(history, &mut oracle, ctx))?;
    ctx.set_nontrivial(oracle.nontrivial);
    ctx.note("txs_built", stats.txs_built);
    ctx.note("txs_executed", stats.txs_executed);
    ctx.note("txs_failed", stats.txs_failed);
    ctx.note("ibc_ops", stats.ibc_ops);
    Ok(())
}

pub fn run(args: &[String]) -> ! {
    let mut s = Session::from_args("C01", "exploration", args);
    s.assume("harness precondition: per asset, the genesis supply fits in u128 (true of every real chain)");
    s.assume("transactions are stepped through App::execute_transaction inside scratch blocks; incoming IBC packets enter at the ICS-20 application handler (after proof verification)");
    s.assume("the fee recipient is the sudo address stored when the block ends");
    s.run_prop_with(Prop {
        name: "histories",
        rule: "generated genesis (balances up to u128::MAX, fee rows from 0 to u128::MAX or disabled, any \
               subset of 4 assets as fee assets) x 1..6 blocks x 0..8 operations (transactions with 1..4 \
               actions of all value-moving types and fee-schedule changes, incoming IBC packets, \
               acks, timeouts). Oracle: arbitrary-precision reference model of every balance, escrow \
               and fee-pot change per transaction; tx.fees events == base + multiplier x size from \
               the fee table read before the transaction; pot == sum of fees; pot credited to the fee \
               recipient at block end. Non-trivial: a block with >= 2 successful fee-paying \
               transactions by >= 2 different signers",
        cases_quick: 1400,
        cases_thorough: 25_000,
        shards: 12,
        min_nontrivial: 0.05,
        max_shrink_iters: 200,
        strategy: Box::new(|_| hist::history(bias())),
        test: Box::new(case),
    }, Some(hist::simplifier()));
    s.finish()
}
