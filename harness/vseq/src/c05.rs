//! C05 — block execution is deterministic and independent of a node's ABCI call path.
//!
//! Differential oracle: several independent nodes (own storage, own mempool) start from the same
//! genesis. Per height they see the same decided block but reach `FinalizeBlock` over different
//! legal call paths (proposer, validator that processed the decided block, validator that saw
//! other rounds' proposals first, node restarted in between, node that only syncs). All must
//! agree: all succeed or all fail; identical `FinalizeBlock` responses; identical committed state.

use std::collections::BTreeMap;

use astria_sequencer::verif::Node;
use bytes::Bytes;
use proptest::prelude::*;
use serde::{
    Deserialize,
    Serialize,
};
use vcommon::{
    vensure,
    CaseResult,
    Ctx,
    Prop,
    Session,
    Tier,
};

use crate::{
    hist::{
        self,
        ATx,
        Bias,
        View,
    },
    l1::{
        self,
        BlockCtx,
        VoteKind,
        VoteSpec,
    },
    world::{
        self,
        GenesisSpec,
    },
};

pub const N_NODES: usize = 4; // node 3 is the syncing node: it only ever sees FinalizeBlock

#[derive(Clone, Debug, Serialize, Deserialize, PartialEq, Eq)]
pub enum Step {
    /// this node is asked to propose in some round (its proposal is not the decided one unless it
    /// is the height's proposer)
    PrepareOwn,
    /// this node validates the proposal of node `n` (if that node produced one; else the decided)
    Process(u8),
    /// this node validates a corrupted variant of the decided proposal (must not matter)
    ProcessCorrupted(u8),
    /// this node validates the decided proposal (in the decided round)
    ProcessDecided,
    /// the node process is restarted (state rebuilt from the last commit, mempool lost)
    Restart,
}

#[derive(Clone, Debug, Serialize, Deserialize)]
pub struct HeightPlan {
    pub txs: Vec<ATx>,
    /// per transaction: bitmask of nodes (0..3) whose mempool receives it
    pub delivery: Vec<u8>,
    /// votes on the previous block, by validator index
    pub votes: Vec<VoteSpec>,
    pub proposer: u8,
    /// pre-decision steps of nodes 0..3
    pub schedules: Vec<Vec<Step>>,
}

#[derive(Clone, Debug, Serialize, Deserialize)]
pub struct Case {
    pub genesis: GenesisSpec,
    pub heights: Vec<HeightPlan>,
}

fn bias() -> Bias {
    Bias {
        currency_pairs: 6,
        transfer: 6,
        rollup: 4,
        bridge: 5,
        ics20: 1,
        bridge_admin: 2,
        sudo: 8,
        validator: 2,
        ibc_in: 0,
        wrong_signer_pct: 6,
        bad_nonce_pct: 6,
        max_blocks: 8,
        max_ops: 6,
        max_actions: 3,
        bridge_genesis_pct: 60,
    }
}

pub fn vote_spec() -> BoxedStrategy<VoteSpec> {
    let price = prop_oneof![
        4 => 1_i128..1_000_000,
        1 => Just(0_i128),
        1 => Just(i128::MAX),
        1 => -1000_i128..0,
    ];
    let prices = proptest::collection::vec((0_u64..4, price), 0..4);
    prop_oneof![
        8 => proptest::option::weighted(0.7, prices).prop_map(|prices| VoteSpec {
            kind: VoteKind::Commit,
            prices,
        }),
        1 => Just(VoteSpec { kind: VoteKind::Nil, prices: None }),
        1 => Just(VoteSpec { kind: VoteKind::Absent, prices: None }),
    ]
    .boxed()
}

fn step() -> impl Strategy<Value = Step> {
    prop_oneof![
        2 => Just(Step::PrepareOwn),
        3 => (0_u8..3).prop_map(Step::Process),
        1 => any::<u8>().prop_map(Step::ProcessCorrupted),
        4 => Just(Step::ProcessDecided),
        1 => Just(Step::Restart),
    ]
}

fn case(tier: Tier) -> BoxedStrategy<Case> {
    let b = bias();
    let max_heights = tier.pick(6, 8);
    let plan = (
        proptest::collection::vec(hist::atx(&b), 0..=5),
        proptest::collection::vec(1_u8..16, 5),
        proptest::collection::vec(vote_spec(), 0..5),
        0_u8..3,
        proptest::collection::vec(proptest::collection::vec(step(), 0..=3), 3),
    )
        .prop_map(|(txs, delivery, votes, proposer, schedules)| HeightPlan {
            txs,
            delivery,
            votes,
            proposer,
            schedules,
        });
    (
        world::genesis_spec(b.bridge_genesis_pct),
        proptest::collection::vec(plan, 2..=max_heights),
    )
        .prop_map(|(genesis, heights)| Case {
            genesis,
            heights,
        })
        .boxed()
}

fn simplify(case: &Case) -> Vec<Case> {
    let mut out = Vec::new();
    // heights can only be dropped from the end (heights are consecutive)
    if case.heights.len() > 1 {
        let mut c = case.clone();
        c.heights.pop();
        out.push(c);
    }
    for h in 0..case.heights.len() {
        for t in (0..case.heights[h].txs.len()).rev() {
            let mut c = case.clone();
            c.heights[h].txs.remove(t);
            out.push(c);
        }
        for n in 0..case.heights[h].schedules.len() {
            for s in (0..case.heights[h].schedules[n].len()).rev() {
                let mut c = case.clone();
                c.heights[h].schedules[n].remove(s);
                out.push(c);
            }
        }
        if !case.heights[h].votes.is_empty() {
            let mut c = case.clone();
            c.heights[h].votes.clear();
            out.push(c);
        }
    }
    out
}

fn corrupt(txs: &[Bytes], sel: u8) -> Vec<Bytes> {
    let mut out = txs.to_vec();
    if out.is_empty() {
        return out;
    }
    let i = sel as usize % out.len();
    let mut bytes = out[i].to_vec();
    if bytes.is_empty() {
        bytes.push(1);
    } else {
        let j = (sel as usize / 7) % bytes.len();
        bytes[j] ^= 0x41;
    }
    out[i] = bytes.into();
    out
}

async fn run_case(case: &Case, ctx: &mut Ctx) -> CaseResult {
    let mut nodes: Vec<Node> = Vec::new();
    for _ in 0..N_NODES {
        let mut node = world::boot(&case.genesis, 50).await;
        hist::seed_ibc(&mut node).await;
        nodes.push(node);
    }
    let mut built: Vec<hist::BuiltTx> = Vec::new();
    let mut interesting_heights = 0;
    for (i, plan) in case.heights.iter().enumerate() {
        let height = i as u64 + 1;
        let ve_enabled = l1::vote_extensions_enabled(&case.genesis, height);
        let last_commit = if ve_enabled {
            let validators = l1::committed_validators(&nodes[3]).await;
            Some(l1::extended_commit(&validators, &plan.votes, height - 1, 0))
        } else {
            None
        };
        // ---- mempools ---------------------------------------------------------------------
        let mut pre = world::dump(nodes[0].state()).await;
        let view = View::read(nodes[0].state()).await;
        for (t, atx) in plan.txs.iter().enumerate() {
            let Some(tx) = hist::concretize(atx, &view, &pre, &built, height) else {
                continue;
            };
            // later transactions of the same signer in this height continue its nonce sequence
            if !tx.is_replay {
                *pre.nonces.entry(tx.signer).or_default() = tx.nonce.saturating_add(1);
            }
            let mask = plan.delivery.get(t).copied().unwrap_or(0b111);
            for (n, node) in nodes.iter_mut().enumerate().take(3) {
                if mask & (1 << n) != 0 {
                    let _ = node.check_tx(tx.bytes.clone(), false).await;
                }
            }
            if !tx.is_replay {
                built.push(tx);
            }
        }
        // ---- the decided proposal ---------------------------------------------------------
        let proposer = plan.proposer as usize % 3;
        let decided_ctx = BlockCtx {
            height,
            round: proposer as u32 + 1,
            max_tx_bytes: 200_000,
            last_commit: last_commit.clone(),
        };
        let decided = match nodes[proposer].prepare_proposal(decided_ctx.prepare_request()).await {
            Ok(response) => response.txs,
            Err(error) => {
                vensure!(
                    false,
                    "prepare-proposal-failed",
                    "height {height}: PrepareProposal failed on the proposer: {error}"
                );
                unreachable!()
            }
        };
        let user_txs_in_block = decided.len() > 2 + usize::from(ve_enabled);
        let mut candidates: BTreeMap<usize, (BlockCtx, Vec<Bytes>)> = BTreeMap::new();
        candidates.insert(proposer, (decided_ctx.clone(), decided.clone()));
        // the proposer itself validates its own proposal first (CometBFT always does)
        let mut paths: Vec<String> = vec![String::new(); N_NODES];
        let own = nodes[proposer]
            .process_proposal(decided_ctx.process_request(decided.clone()))
            .await;
        paths[proposer].push_str("Prepare(decided),Process(decided)");
        vensure!(
            own.is_ok(),
            "proposer-rejects-own-proposal",
            "height {height}: the proposer's ProcessProposal rejected the block it just prepared: {:?}",
            own
        );
        // ---- other rounds / other nodes ---------------------------------------------------
        // verdicts of ProcessProposal(decided) on the other nodes: (node, path so far, verdict)
        let mut decided_verdicts: Vec<(usize, String, Result<(), String>)> = Vec::new();
        for n in 0..3 {
            let schedule = plan.schedules.get(n).cloned().unwrap_or_default();
            for step in schedule {
                match step {
                    Step::PrepareOwn => {
                        if n == proposer {
                            continue;
                        }
                        let ctx_n = BlockCtx {
                            height,
                            round: 10 + n as u32,
                            max_tx_bytes: 200_000,
                            last_commit: last_commit.clone(),
                        };
                        if let Ok(response) = nodes[n].prepare_proposal(ctx_n.prepare_request()).await {
                            // and validates it, as CometBFT makes every proposer do
                            let _ = nodes[n]
                                .process_proposal(ctx_n.process_request(response.txs.clone()))
                                .await;
                            candidates.insert(n, (ctx_n, response.txs));
                            paths[n].push_str(",Prepare(own),Process(own)");
                        }
                    }
                    Step::Process(of) => {
                        let of = of as usize % 3;
                        if of == n {
                            continue;
                        }
                        if let Some((ctx_o, txs)) = candidates.get(&of).cloned() {
                            let verdict = nodes[n].process_proposal(ctx_o.process_request(txs)).await;
                            paths[n].push_str(if of == proposer {
                                ",Process(decided)"
                            } else {
                                ",Process(other)"
                            });
                            if of == proposer {
                                decided_verdicts.push((n, paths[n].clone(), verdict));
                            }
                        }
                    }
                    Step::ProcessCorrupted(sel) => {
                        let ctx_c = BlockCtx {
                            round: 20 + n as u32,
                            ..decided_ctx.clone()
                        };
                        let _ = nodes[n]
                            .process_proposal(ctx_c.process_request(corrupt(&decided, sel)))
                            .await;
                        paths[n].push_str(",Process(corrupted)");
                    }
                    Step::ProcessDecided => {
                        if n == proposer {
                            continue;
                        }
                        let verdict = nodes[n]
                            .process_proposal(decided_ctx.process_request(decided.clone()))
                            .await;
                        paths[n].push_str(",Process(decided)");
                        decided_verdicts.push((n, paths[n].clone(), verdict));
                    }
                    Step::Restart => {
                        nodes[n].restart().await;
                        paths[n].push_str(",Restart");
                    }
                }
            }
        }
        paths[3].push_str("sync");
        // The proposer accepted the decided block on this committed state: every other node that
        // is asked to validate it must accept it too, whatever it was asked before.
        let mut undecidable = false;
        for (n, path, verdict) in &decided_verdicts {
            let Err(error) = verdict else {
                continue;
            };
            // the shape recorded as C06's known finding (transactions constructed against the
            // block-start state) is C06's to report; such a block cannot be decided
            if l1::is_block_start_construction_shape(error, &decided, 2 + usize::from(ve_enabled)) {
                ctx.label("history-ends:c06-known-shape:tx-constructed-against-block-start-state");
                undecidable = true;
                continue;
            }
            vensure!(
                false,
                "decided-block-accepted-on-one-path-rejected-on-another",
                "height {height}: the proposer's ProcessProposal accepted the decided block, but node {n} (path {}) rejected it: {error}",
                path.trim_start_matches(',')
            );
        }
        if undecidable {
            break;
        }
        // ---- decision ---------------------------------------------------------------------
        let mut results = Vec::new();
        for node in &mut nodes {
            results.push(node.finalize_block(decided_ctx.finalize_request(decided.clone())).await);
        }
        let distinct_paths: std::collections::BTreeSet<&String> = paths.iter().collect();
        for p in &paths {
            ctx.label(format!("path:{}", p.trim_start_matches(',')));
        }
        if distinct_paths.len() >= 3 && user_txs_in_block {
            interesting_heights += 1;
        }
        // C06's recorded finding also shows on the from-scratch path of FinalizeBlock (a node that
        // did not execute the block in PrepareProposal constructs every transaction against the
        // block-start state); such a block cannot be decided by honest validators in the first
        // place, so the history ends here and the shape is left to C06's report.
        let injected = 2 + usize::from(ve_enabled);
        if results.iter().any(|r| {
            r.as_ref()
                .err()
                .is_some_and(|error| l1::is_block_start_construction_shape(error, &decided, injected))
        }) {
            ctx.label("history-ends:c06-known-shape:tx-constructed-against-block-start-state");
            break;
        }
        let reference = &results[3];
        for (n, result) in results.iter().enumerate() {
            match (reference, result) {
                (Ok(a), Ok(b)) => {
                    let (ra, rb) = (l1::render_finalize(a), l1::render_finalize(b));
                    vensure!(
                        ra == rb,
                        "finalize-response-differs-between-paths",
                        "height {height}: node {n} (path {}) and the syncing node disagree on the FinalizeBlock response:\n--- node {n}\n{rb}\n--- sync\n{ra}",
                        paths[n]
                    );
                }
                (Err(_), Err(_)) => {}
                (a, b) => {
                    vensure!(
                        false,
                        "finalize-succeeds-on-one-path-fails-on-another",
                        "height {height}: FinalizeBlock on node {n} (path {}) gave {:?} but on the syncing node {:?}",
                        paths[n],
                        b.as_ref().map(|_| "Ok").map_err(|e| e.clone()),
                        a.as_ref().map(|_| "Ok").map_err(|e| e.clone())
                    );
                }
            }
        }
        if reference.is_err() {
            // CometBFT would halt here on every node alike; nothing more to compare
            ctx.label("decided-block-fails-everywhere");
            break;
        }
        for node in &mut nodes {
            node.commit().await.map_err(|e| vcommon::Failure::new("commit-failed", e))?;
        }
        let reference_dump = world::dump(nodes[3].state()).await;
        for (n, node) in nodes.iter().enumerate().take(3) {
            let dump = world::dump(node.state()).await;
            vensure!(
                node.app_hash() == nodes[3].app_hash() && dump == reference_dump,
                "committed-state-differs-between-paths",
                "height {height}: node {n} (path {}) committed a different state than the syncing node: {}",
                paths[n],
                crate::c03::diff_summary(&reference_dump, &dump)
            );
        }
        if ve_enabled {
            ctx.label("height-with-extended-commit");
        }
    }
    ctx.set_nontrivial(interesting_heights > 0);
    Ok(())
}

fn test(case: &Case, ctx: &mut Ctx) -> CaseResult {
    world::block_on(run_case(case, ctx))
}

pub fn run(args: &[String]) -> ! {
    let mut s = Session::from_args("C05", "exploration", args);
    s.assume("CometBFT is modelled: synthetic block hashes and times; last commits carry vote extensions signed by the validators the application stores");
    s.assume("schedules are sequences of whole ABCI calls; interleavings inside one call are not enumerated");
    s.run_prop_with(
        Prop {
            name: "call_paths",
            rule: "genesis x 2..6 (thorough 8) heights from height 1 (crossing the Aspen and Blackburn \
                   activation heights); per height 0..5 transactions delivered to different subsets of 3 \
                   mempools, generated votes / vote-extension prices for the last commit, a proposer, and \
                   per node 0..3 pre-decision steps {PrepareOwn, Process(other round), \
                   Process(corrupted), Process(decided), Restart}; a 4th node only syncs. Oracle: \
                   every ProcessProposal(decided) on another node accepts (the proposer did); \
                   FinalizeBlock all-Ok-or-all-Err, equal responses, equal app hash and full state dump. \
                   Non-trivial: a height whose block contains user transactions and that is reached over \
                   >= 3 distinct call paths",
            cases_quick: 320,
            cases_thorough: 4000,
            shards: 12,
            min_nontrivial: 0.2,
            max_shrink_iters: 60,
            strategy: Box::new(case),
            test: Box::new(test),
        },
        Some(Box::new(simplify)),
    );
    s.finish()
}
