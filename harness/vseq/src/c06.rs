//! C06 — honest proposals are always accepted; malformed or over-limit ones rejected.
//! C07 (part A) — rollup data is complete, ordered and provable from block to the gRPC client.
//!
//! Both run on the same chain driver: transactions reach a proposer's mempool through the real
//! `CheckTx` service over several heights, the proposer builds each block with
//! `PrepareProposal`, a second node validates it with `ProcessProposal` (after having been shown
//! single-field mutations of it), a third node only syncs.

use std::collections::{
    BTreeMap,
    BTreeSet,
};

use astria_core::{
    generated::astria::{
        protocol::transaction::v1 as rawtx,
        sequencerblock::v1 as rawblock,
    },
    primitive::v1::RollupId,
    protocol::transaction::v1::Action,
    sequencerblock::v1::{
        block::{
            Deposit,
            FilteredSequencerBlock,
            RollupData,
        },
        SequencerBlock,
    },
    Protobuf as _,
};
use astria_sequencer::verif::{
    self,
    Node,
};
use bytes::Bytes;
use prost::Message as _;
use proptest::prelude::*;
use serde::{
    Deserialize,
    Serialize,
};
use vcommon::{
    vensure,
    CaseResult,
    Ctx,
    Prop,
    Session,
    Tier,
};

use crate::{
    c05::vote_spec,
    hist::{
        self,
        AAction,
        ATx,
        Amt,
        Bias,
        BuiltTx,
        NonceMode,
        View,
        Who,
    },
    l1::{
        self,
        BlockCtx,
        VoteSpec,
    },
    world::{
        self,
        GenesisSpec,
        WORLD,
    },
};

const SEQUENCED_DATA_LIMIT: usize = 256_000;

#[derive(Clone, Debug, Serialize, Deserialize)]
pub struct HeightPlan {
    pub txs: Vec<ATx>,
    pub votes: Vec<VoteSpec>,
    /// `max_tx_bytes` CometBFT passes: an offset class
    pub max_bytes: u8,
    pub mutation_seed: u16,
    /// `Some((k, d))`: the proposer is first asked for a round-0 proposal under a 1 MiB limit;
    /// the limit of the real (round 1) proposal is then placed `SLACKS[d]` bytes below the end of
    /// the k-th transaction of that probe, so that the byte counter of `PrepareProposal` is
    /// exercised exactly at (and a few bytes around) a transaction boundary.
    #[serde(default)]
    pub fit: Option<(u8, u8)>,
}

/// bytes missing for the cut transaction to fit (0: it fits exactly)
const SLACKS: [usize; 10] = [0, 1, 2, 7, 31, 63, 64, 65, 130, 1000];

#[derive(Clone, Debug, Serialize, Deserialize)]
pub struct Case {
    pub genesis: GenesisSpec,
    pub heights: Vec<HeightPlan>,
}

fn bias() -> Bias {
    Bias {
        currency_pairs: 2,
        transfer: 8,
        rollup: 10,
        bridge: 6,
        ics20: 1,
        bridge_admin: 3,
        sudo: 5,
        validator: 1,
        ibc_in: 0,
        wrong_signer_pct: 4,
        bad_nonce_pct: 12,
        max_blocks: 6,
        max_ops: 8,
        max_actions: 3,
        bridge_genesis_pct: 70,
    }
}

/// big rollup payloads so that blocks run into the CometBFT and sequenced-data limits
fn big_rollup_tx() -> BoxedStrategy<ATx> {
    (0_u8..8, 0_u8..3, prop_oneof![Just(60_000_u32), Just(100_000), Just(127_900), Just(128_100), Just(200_000), Just(255_000)])
        .prop_map(|(from, rollup, len)| ATx {
            signer: Who::Auto,
            from,
            nonce: NonceMode::Correct,
            actions: vec![AAction::BigRollup {
                rollup,
                len,
                fee: 0,
            }],
        })
        .boxed()
}

fn case(tier: Tier) -> BoxedStrategy<Case> {
    let b = bias();
    let max_heights = tier.pick(5, 7);
    let tx = prop_oneof![
        10 => hist::atx(&b),
        2 => big_rollup_tx(),
    ];
    let plan = (
        proptest::collection::vec(tx, 0..=8),
        proptest::collection::vec(vote_spec(), 0..4),
        any::<u8>(),
        any::<u16>(),
        proptest::option::weighted(0.35, (any::<u8>(), 0_u8..SLACKS.len() as u8)),
    )
        .prop_map(|(txs, votes, max_bytes, mutation_seed, fit)| HeightPlan {
            txs,
            votes,
            max_bytes,
            mutation_seed,
            fit,
        });
    (
        world::genesis_spec(b.bridge_genesis_pct),
        proptest::collection::vec(plan, 1..=max_heights),
        proptest::option::weighted(0.25, (1_u8..8, 1_u8..8, 0_u8..3)),
    )
        .prop_map(|(mut genesis, mut heights, script)| {
            if let Some((b_off, c_off, rollup)) = script {
                // Authority flip-flop: the sudo account parks two transactions behind a nonce gap
                // (a rollup submission and a sudo change), hands sudo to someone else in the same
                // height, and gets it back in the next height, in which the parked transactions
                // have become ready.
                let a = genesis.sudo;
                let other = (a + b_off) % world::N_KEYS as u8;
                let third = (a + c_off) % world::N_KEYS as u8;
                let tx = |nonce: NonceMode, action: AAction| ATx {
                    signer: Who::Key(a),
                    from: a,
                    nonce,
                    actions: vec![action],
                };
                let first = HeightPlan {
                    txs: vec![
                        tx(NonceMode::Gap(1), AAction::Rollup { rollup, len: 8, fee: 0 }),
                        tx(NonceMode::Gap(2), AAction::SudoChange { new: third }),
                        tx(NonceMode::Correct, AAction::SudoChange { new: other }),
                    ],
                    votes: vec![],
                    max_bytes: 0,
                    mutation_seed: 7,
                    fit: None,
                };
                let second = HeightPlan {
                    txs: vec![ATx {
                        signer: Who::Key(other),
                        from: other,
                        nonce: NonceMode::Correct,
                        actions: vec![AAction::SudoChange { new: a }],
                    }],
                    votes: vec![],
                    max_bytes: 0,
                    mutation_seed: 11,
                    fit: None,
                };
                heights.insert(0, second);
                heights.insert(0, first);
            }
            // cheap rollup data so that large payloads are affordable
            if let Some(Some((base, mult))) = genesis.fees.get_mut(1) {
                base.0 %= 100;
                mult.0 %= 3;
            }
            Case {
                genesis,
                heights,
            }
        })
        .boxed()
}

fn simplify(case: &Case) -> Vec<Case> {
    let mut out = Vec::new();
    if case.heights.len() > 1 {
        let mut c = case.clone();
        c.heights.pop();
        out.push(c);
    }
    for h in 0..case.heights.len() {
        for t in (0..case.heights[h].txs.len()).rev() {
            let mut c = case.clone();
            c.heights[h].txs.remove(t);
            out.push(c);
        }
        if !case.heights[h].votes.is_empty() {
            let mut c = case.clone();
            c.heights[h].votes.clear();
            out.push(c);
        }
    }
    out
}

#[derive(Clone, Copy, PartialEq, Eq)]
pub enum Mode {
    C06,
    C07,
}

struct Decoded {
    /// number of injected (non transaction) items at the front
    injected: usize,
    txs: Vec<(Bytes, astria_core::protocol::transaction::v1::Transaction)>,
}

fn decode_block(items: &[Bytes], injected: usize) -> Option<Decoded> {
    let mut txs = Vec::new();
    for bytes in items.iter().skip(injected) {
        let raw = rawtx::Transaction::decode(bytes.clone()).ok()?;
        let tx = astria_core::protocol::transaction::v1::Transaction::try_from_raw(raw).ok()?;
        txs.push((bytes.clone(), tx));
    }
    Some(Decoded {
        injected,
        txs,
    })
}

/// One single-field mutation of an honest proposal that makes it violate one of the conditions
/// the property lists. `None` if the mutation does not apply to this block.
fn mutate(kind: usize, seed: u16, block: &[Bytes], decoded: &Decoded, stale_tx: Option<&Bytes>) -> Option<(&'static str, Vec<Bytes>)> {
    let mut out = block.to_vec();
    let n_user = decoded.txs.len();
    let pick = |len: usize| vcommon::gen::pick_index(seed, len);
    match kind {
        0 => {
            // rollup data commitment does not match the transactions
            let mut item = out[0].to_vec();
            let i = pick(item.len().max(1)).min(item.len().saturating_sub(1));
            *item.get_mut(i)? ^= 0x01;
            out[0] = item.into();
            Some(("commitment:rollup-data-root", out))
        }
        1 => {
            let mut item = out[1].to_vec();
            let i = item.len().checked_sub(1)?;
            item[i] ^= 0x80;
            out[1] = item.into();
            Some(("commitment:rollup-ids-root", out))
        }
        2 => {
            // drop a transaction that carries rollup data: commitments no longer match
            let with_data: Vec<usize> = decoded
                .txs
                .iter()
                .enumerate()
                .filter(|(_, (_, tx))| {
                    !never_takes_effect(tx)
                        && tx.actions().iter().any(|a| matches!(a, Action::RollupDataSubmission(_)))
                })
                .map(|(i, _)| i)
                .collect();
            if with_data.is_empty() {
                return None;
            }
            out.remove(decoded.injected + with_data[pick(with_data.len())]);
            Some(("dropped-tx-with-rollup-data", out))
        }
        3 => {
            // the same signed transaction twice: the second cannot execute (nonce). Only a
            // transaction that took effect the first time qualifies (a "failed" one leaves the
            // nonce where it was and may legitimately be proposed again).
            let effective: Vec<usize> = (0..n_user).filter(|i| !never_takes_effect(&decoded.txs[*i].1)).collect();
            if effective.is_empty() {
                return None;
            }
            let copy = decoded.txs[effective[pick(effective.len())]].0.clone();
            out.push(copy);
            Some(("duplicated-tx", out))
        }
        4 => {
            out.push(Bytes::from(vec![0xff, 0x01, 0x02, seed as u8]));
            Some(("undecodable-tx", out))
        }
        5 => {
            // corrupt the signature of one transaction
            if n_user == 0 {
                return None;
            }
            let i = pick(n_user);
            let mut raw = rawtx::Transaction::decode(decoded.txs[i].0.clone()).ok()?;
            let mut sig = raw.signature.to_vec();
            let j = pick(sig.len().max(1)).min(sig.len().checked_sub(1)?);
            sig[j] ^= 0x10;
            raw.signature = sig.into();
            out[decoded.injected + i] = raw.encode_to_vec().into();
            Some(("bad-signature", out))
        }
        6 => {
            // group order inversion: move a transaction of a lower-numbered (later) group in
            // front of a transaction of a higher-numbered (earlier) group
            let groups: Vec<_> = decoded.txs.iter().map(|(_, tx)| tx.group()).collect();
            let (mut a, mut b) = (None, None);
            for i in 0..n_user {
                for j in i + 1..n_user {
                    if groups[i] > groups[j] {
                        a = Some(i);
                        b = Some(j);
                    }
                }
            }
            let (a, b) = (a?, b?);
            out.swap(decoded.injected + a, decoded.injected + b);
            Some(("group-order-inverted", out))
        }
        7 => {
            // a transaction that already took effect in an earlier block (stale nonce)
            out.push(stale_tx?.clone());
            Some(("stale-tx", out))
        }
        8 => {
            // a data item too many / too few
            if decoded.injected < 2 {
                return None;
            }
            if seed % 2 == 0 {
                out.remove(1);
                Some(("missing-data-item", out))
            } else {
                out.insert(1, block[1].clone());
                Some(("extra-data-item", out))
            }
        }
        _ => None,
    }
}

const N_MUTATIONS: usize = 9;

/// Transactions carrying an `IbcRelay` action never take effect in generated histories: the only
/// relay message the generator knows is unappliable by construction (`hist::bad_ibc_relay`). Before
/// Blackburn such a transaction fails fatally and is not proposed at all; after it, it is included
/// as "failed": no deposit, no state change, no nonce bump (its data submissions are still part
/// of the block). The oracles below must not count it as executed.
fn never_takes_effect(tx: &astria_core::protocol::transaction::v1::Transaction) -> bool {
    tx.actions().iter().any(|a| matches!(a, Action::Ibc(_)))
}

/// The rollup data a block must publish, computed from its transactions alone: per rollup the
/// sequenced payloads in block order, then the deposits in execution order.
fn expected_rollup_data(
    txs: &[(Bytes, astria_core::protocol::transaction::v1::Transaction)],
    view: &View,
) -> BTreeMap<RollupId, Vec<RollupData>> {
    use sha2::Digest as _;
    let mut sequenced: BTreeMap<RollupId, Vec<RollupData>> = BTreeMap::new();
    let mut deposits: BTreeMap<RollupId, Vec<RollupData>> = BTreeMap::new();
    let mut view = view.clone();
    for (bytes, tx) in txs {
        // A transaction that is included as "failed" is still one of the block's transactions:
        // its data submissions are published in block order, but it made no deposit and created
        // no bridge account.
        let failed = never_takes_effect(tx);
        let tx_id = astria_core::primitive::v1::TransactionId::new(sha2::Sha256::digest(bytes).into());
        for (index, action) in tx.actions().iter().enumerate() {
            if failed && !matches!(action, Action::RollupDataSubmission(_)) {
                continue;
            }
            match action {
                Action::RollupDataSubmission(a) => {
                    sequenced
                        .entry(a.rollup_id)
                        .or_default()
                        .push(RollupData::SequencedData(a.data.clone()));
                }
                Action::BridgeLock(a) => {
                    if let Some(bridge) = view.bridge_at(&a.to.bytes()) {
                        deposits.entry(bridge.rollup_id).or_default().push(RollupData::Deposit(Box::new(Deposit {
                            bridge_address: a.to,
                            rollup_id: bridge.rollup_id,
                            amount: a.amount,
                            asset: trace_of(&a.asset),
                            destination_chain_address: a.destination_chain_address.clone(),
                            source_transaction_id: tx_id,
                            source_action_index: index as u64,
                        })));
                    }
                }
                Action::BridgeTransfer(a) => {
                    if let Some(bridge) = view.bridge_at(&a.to.bytes()) {
                        let asset = WORLD
                            .asset_index(&bridge.asset)
                            .map(|i| WORLD.asset(i).clone())
                            .expect("bridge assets come from the harness pool");
                        deposits.entry(bridge.rollup_id).or_default().push(RollupData::Deposit(Box::new(Deposit {
                            bridge_address: a.to,
                            rollup_id: bridge.rollup_id,
                            amount: a.amount,
                            asset,
                            destination_chain_address: a.destination_chain_address.clone(),
                            source_transaction_id: tx_id,
                            source_action_index: index as u64,
                        })));
                    }
                }
                Action::InitBridgeAccount(a) => {
                    // later transactions of the block may lock into the new bridge account
                    if let Some(k) = WORLD.key_of(tx.address_bytes()) {
                        view.bridges[k] = Some(verif::read::BridgeAccount {
                            rollup_id: a.rollup_id,
                            asset: a.asset.to_ibc_prefixed(),
                            sudo: None,
                            withdrawer: None,
                            disabled: false,
                        });
                    }
                }
                _ => {}
            }
        }
    }
    let mut out = sequenced;
    for (rollup, list) in deposits {
        out.entry(rollup).or_default().extend(list);
    }
    out
}

fn trace_of(denom: &astria_core::primitive::v1::asset::Denom) -> astria_core::primitive::v1::asset::Denom {
    // deposits always carry the trace-prefixed form
    match denom {
        astria_core::primitive::v1::asset::Denom::TracePrefixed(_) => denom.clone(),
        astria_core::primitive::v1::asset::Denom::IbcPrefixed(ibc) => WORLD
            .asset_index(ibc)
            .map(|i| WORLD.asset(i).clone())
            .unwrap_or_else(|| denom.clone()),
    }
}

fn render_rollup_data(data: &RollupData) -> String {
    match data {
        RollupData::SequencedData(bytes) => format!("seq[{}]:{}", bytes.len(), hex::encode(&bytes[..bytes.len().min(8)])),
        RollupData::Deposit(d) => format!("deposit:{}", world::render_deposit(d)),
        other => format!("unexpected:{other:?}"),
    }
}

async fn check_served_block(
    node: &Node,
    height: u64,
    expected: &BTreeMap<RollupId, Vec<RollupData>>,
    seed: u16,
    ctx: &mut Ctx,
) -> Result<bool, vcommon::Failure> {
    let raw = match node.grpc_get_sequencer_block(height).await {
        Ok(raw) => raw,
        Err(e) => {
            return Err(vcommon::Failure::new(
                "served-block-missing",
                format!("height {height}: GetSequencerBlock failed: {e}"),
            ))
        }
    };
    let block = match SequencerBlock::try_from_raw(raw.clone()) {
        Ok(block) => block,
        Err(e) => {
            return Err(vcommon::Failure::new(
                "served-block-does-not-verify",
                format!("height {height}: the served block is rejected by the client-side checks: {e}"),
            ))
        }
    };
    // ---- completeness and order --------------------------------------------------------
    let served: BTreeMap<RollupId, Vec<String>> = block
        .rollup_transactions()
        .iter()
        .map(|(id, txs)| {
            (
                *id,
                txs.transactions()
                    .iter()
                    .map(|bytes| {
                        match astria_core::generated::astria::sequencerblock::v1::RollupData::decode(bytes.clone())
                            .ok()
                            .and_then(|raw| RollupData::try_from_raw(raw).ok())
                        {
                            Some(data) => render_rollup_data(&data),
                            None => format!("undecodable:{}", hex::encode(bytes)),
                        }
                    })
                    .collect(),
            )
        })
        .collect();
    let wanted: BTreeMap<RollupId, Vec<String>> = expected
        .iter()
        .map(|(id, list)| (*id, list.iter().map(render_rollup_data).collect()))
        .collect();
    if served != wanted {
        return Err(vcommon::Failure::new(
            "served-rollup-data-differs",
            format!(
                "height {height}: the stored block serves {served:?} but the block's transactions imply {wanted:?}"
            ),
        ));
    }
    let nontrivial = expected.len() >= 2
        && expected
            .values()
            .any(|l| l.iter().any(|d| matches!(d, RollupData::Deposit(_))));
    // ---- filtered ----------------------------------------------------------------------
    let mut candidates: Vec<RollupId> = WORLD.rollups.clone();
    candidates.push(RollupId::from_unhashed_bytes("absent-rollup"));
    for mask in 0..(1_u32 << candidates.len()) {
        let requested: Vec<RollupId> = candidates
            .iter()
            .enumerate()
            .filter(|(i, _)| mask & (1 << i) != 0)
            .map(|(_, id)| *id)
            .collect();
        let raw_filtered = node
            .grpc_get_filtered_sequencer_block(height, requested.clone())
            .await
            .map_err(|e| vcommon::Failure::new("filtered-block-missing", format!("height {height}: {e}")))?;
        let filtered = FilteredSequencerBlock::try_from_raw(raw_filtered.clone()).map_err(|e| {
            vcommon::Failure::new(
                "filtered-block-does-not-verify",
                format!("height {height}: filtered block for {requested:?} rejected by the client-side checks: {e}"),
            )
        })?;
        let got: BTreeSet<RollupId> = filtered.rollup_transactions().keys().copied().collect();
        let want: BTreeSet<RollupId> = requested.iter().filter(|id| expected.contains_key(*id)).copied().collect();
        if got != want {
            return Err(vcommon::Failure::new(
                "filtered-block-wrong-rollups",
                format!("height {height}: filtered to {requested:?}: got data for {got:?}, expected {want:?}"),
            ));
        }
        for (id, txs) in filtered.rollup_transactions() {
            let full = block.rollup_transactions().get(id).map(|t| t.transactions().to_vec());
            if full.as_deref() != Some(txs.transactions()) {
                return Err(vcommon::Failure::new(
                    "filtered-data-differs-from-full",
                    format!("height {height}: filtered data for rollup {id} differs from the full block"),
                ));
            }
        }
        let all_ids: BTreeSet<RollupId> = filtered.all_rollup_ids().iter().copied().collect();
        let expected_ids: BTreeSet<RollupId> = expected.keys().copied().collect();
        if all_ids != expected_ids {
            return Err(vcommon::Failure::new(
                "rollup-id-list-wrong",
                format!("height {height}: the rollup id list is {all_ids:?} but rollups with data are {expected_ids:?}"),
            ));
        }
        // ---- tamper the filtered form ---------------------------------------------------
        if mask == (1 << candidates.len()) - 1 {
            for kind in 0..6 {
                if let Some((label, tampered)) = tamper_filtered(kind, seed, &raw_filtered) {
                    ctx.label(format!("tamper:filtered:{label}"));
                    if FilteredSequencerBlock::try_from_raw(tampered).is_ok() {
                        return Err(vcommon::Failure::new(
                            format!("tamper-accepted:filtered:{label}"),
                            format!("height {height}: a filtered block tampered with `{label}` passes the client-side checks"),
                        ));
                    }
                }
            }
        }
    }
    // ---- every accompanying proof verifies against the header's commitments -----------------
    let root = block.header().rollup_transactions_root();
    for (id, txs) in block.rollup_transactions() {
        let leaf_ok = txs
            .proof()
            .audit()
            .with_root(*root)
            .with_leaf_builder()
            .write(id.as_ref())
            .write(&astria_merkle::Tree::from_leaves(txs.transactions()).root())
            .finish_leaf()
            .perform();
        if !leaf_ok {
            return Err(vcommon::Failure::new(
                "served-proof-does-not-verify",
                format!("height {height}: the proof served for rollup {id} does not verify against the header's rollup transactions root"),
            ));
        }
    }
    // ---- tamper the full form (data changes; in the full form the per-rollup proofs are
    //      redundant because the whole tree can be recomputed, so swapping them is not asserted)
    for kind in 0..5 {
        if let Some((label, tampered)) = tamper_full(kind, seed, &raw) {
            ctx.label(format!("tamper:full:{label}"));
            if SequencerBlock::try_from_raw(tampered).is_ok() {
                return Err(vcommon::Failure::new(
                    format!("tamper-accepted:full:{label}"),
                    format!("height {height}: a block tampered with `{label}` passes the client-side checks"),
                ));
            }
        }
    }
    Ok(nontrivial)
}

fn tamper_rollup_txs(kind: usize, seed: u16, list: &mut Vec<rawblock::RollupTransactions>) -> Option<&'static str> {
    let non_empty: Vec<usize> = list.iter().enumerate().filter(|(_, r)| !r.transactions.is_empty()).map(|(i, _)| i).collect();
    if non_empty.is_empty() {
        return None;
    }
    let r = non_empty[vcommon::gen::pick_index(seed, non_empty.len())];
    match kind {
        0 => {
            let t = vcommon::gen::pick_index(seed.wrapping_mul(31), list[r].transactions.len());
            let mut bytes = list[r].transactions[t].to_vec();
            let i = bytes.len().checked_sub(1)?;
            bytes[i] ^= 0x01;
            list[r].transactions[t] = bytes.into();
            Some("payload-byte-flipped")
        }
        1 => {
            let txs = &mut list[r].transactions;
            let (a, b) = (0..txs.len())
                .flat_map(|a| (a + 1..txs.len()).map(move |b| (a, b)))
                .find(|(a, b)| txs[*a] != txs[*b])?;
            txs.swap(a, b);
            Some("payloads-reordered")
        }
        2 => {
            list[r].transactions.pop();
            Some("payload-list-truncated")
        }
        3 => {
            let extra = list[r].transactions[0].clone();
            list[r].transactions.push(extra);
            Some("payload-list-extended")
        }
        4 => {
            // attribute the data to another rollup
            let other = RollupId::from_unhashed_bytes("someone-else");
            list[r].rollup_id = Some(other.into_raw());
            Some("rollup-id-changed")
        }
        5 => {
            // swap the proofs of two rollups
            if non_empty.len() < 2 {
                return None;
            }
            let r2 = non_empty[(vcommon::gen::pick_index(seed, non_empty.len()) + 1) % non_empty.len()];
            if list[r].proof == list[r2].proof {
                return None;
            }
            let p = list[r].proof.clone();
            list[r].proof = list[r2].proof.clone();
            list[r2].proof = p;
            Some("proofs-swapped")
        }
        _ => None,
    }
}

fn tamper_full(kind: usize, seed: u16, raw: &rawblock::SequencerBlock) -> Option<(&'static str, rawblock::SequencerBlock)> {
    let mut out = raw.clone();
    let label = tamper_rollup_txs(kind, seed, &mut out.rollup_transactions)?;
    Some((label, out))
}

fn tamper_filtered(kind: usize, seed: u16, raw: &rawblock::FilteredSequencerBlock) -> Option<(&'static str, rawblock::FilteredSequencerBlock)> {
    let mut out = raw.clone();
    if kind == 5 && seed % 2 == 0 {
        // alter the list of all rollup ids
        if out.all_rollup_ids.is_empty() {
            return None;
        }
        out.all_rollup_ids.pop();
        return Some(("rollup-id-list-truncated", out));
    }
    let label = tamper_rollup_txs(kind, seed, &mut out.rollup_transactions)?;
    Some((label, out))
}

async fn run_case(case: &Case, mode: Mode, ctx: &mut Ctx) -> CaseResult {
    let mut proposer = world::boot(&case.genesis, 20).await;
    let mut validator = world::boot(&case.genesis, 20).await;
    let mut syncer = world::boot(&case.genesis, 20).await;
    for node in [&mut proposer, &mut validator, &mut syncer] {
        hist::seed_ibc(node).await;
    }
    let mut built: Vec<BuiltTx> = Vec::new();
    let mut stale: Option<Bytes> = None;
    let mut nontrivial = false;
    for (i, plan) in case.heights.iter().enumerate() {
        let height = i as u64 + 1;
        let ve_enabled = l1::vote_extensions_enabled(&case.genesis, height);
        let last_commit = if ve_enabled {
            let validators = l1::committed_validators(&syncer).await;
            Some(l1::extended_commit(&validators, &plan.votes, height - 1, 0))
        } else {
            None
        };
        // ---- fill the proposer's mempool through CheckTx --------------------------------------
        let mut pre = world::dump(proposer.state()).await;
        let view = View::read(proposer.state()).await;
        let mut accepted_by_mempool = 0;
        for atx in &plan.txs {
            let Some(tx) = hist::concretize(atx, &view, &pre, &built, height) else {
                continue;
            };
            if !tx.is_replay && matches!(atx.nonce, NonceMode::Correct) {
                *pre.nonces.entry(tx.signer).or_default() = tx.nonce.saturating_add(1);
            }
            let response = proposer.check_tx(tx.bytes.clone(), false).await;
            if response.code.is_ok() {
                accepted_by_mempool += 1;
            }
            if !tx.is_replay {
                built.push(tx);
            }
        }
        let mempool_before = proposer.mempool_len().await;
        // ---- honest proposal ----------------------------------------------------------------
        let mut max_tx_bytes: i64 = match plan.max_bytes % 6 {
            0 => 1_048_576,
            1 => 300_000,
            2 => 140_000,
            3 => 70_000,
            4 => 2_000 + i64::from(plan.max_bytes) * 16,
            _ => 400 + i64::from(plan.max_bytes),
        };
        let has_upgrade_item = height == case.genesis.aspen_height() || height == case.genesis.blackburn_height();
        let injected = 2 + usize::from(has_upgrade_item) + usize::from(ve_enabled);
        let mut round = 0;
        if let (Mode::C06, Some((k, d))) = (mode, plan.fit) {
            // round 0 is a probe under a generous limit (a proposer whose round timed out is asked
            // again in a later round; the mempool is untouched by PrepareProposal)
            let probe = BlockCtx {
                height,
                round: 0,
                max_tx_bytes: 1_048_576,
                last_commit: last_commit.clone(),
            };
            if let Ok(response) = proposer.prepare_proposal(probe.prepare_request()).await {
                let sizes: Vec<usize> = response.txs.iter().map(Bytes::len).collect();
                let n_txs = sizes.len().saturating_sub(injected);
                if n_txs > 0 {
                    let k = 1 + ((usize::from(k) * n_txs) >> 8); // 1..=n_txs
                    let upto: usize = sizes[..injected + k].iter().sum();
                    let cut = sizes[injected + k - 1];
                    let slack = SLACKS[usize::from(d) % SLACKS.len()].min(cut - 1);
                    max_tx_bytes = (upto - slack) as i64;
                    round = 1;
                    ctx.label(format!(
                        "limit-fitted-to-tx-boundary:{}",
                        match slack {
                            0 => "exact",
                            1..=64 => "1-64-bytes-short",
                            _ => "65+-bytes-short",
                        }
                    ));
                }
            }
        }
        let block_ctx = BlockCtx {
            height,
            round,
            max_tx_bytes,
            last_commit,
        };
        let block = match proposer.prepare_proposal(block_ctx.prepare_request()).await {
            Ok(response) => response.txs,
            Err(error) => {
                // the only legitimate refusal: the byte limit cannot even hold the injected items
                let injected_estimate = 2 * 34 + 80;
                vensure!(
                    mode == Mode::C07 || max_tx_bytes < injected_estimate + 2200,
                    "prepare-proposal-failed",
                    "height {height}: PrepareProposal failed with max_tx_bytes {max_tx_bytes}: {error}"
                );
                ctx.label("prepare-refused:limit-below-injected-items");
                return Ok(());
            }
        };
        let Some(decoded) = decode_block(&block, injected.min(block.len())) else {
            vensure!(false, "proposal-contains-undecodable-tx", "height {height}: PrepareProposal returned a transaction that does not decode");
            unreachable!()
        };
        if mode == Mode::C06 {
            let total: usize = block.iter().map(Bytes::len).sum();
            vensure!(
                total as i64 <= max_tx_bytes,
                "proposal-exceeds-cometbft-limit",
                "height {height}: the proposal is {total} bytes but max_tx_bytes is {max_tx_bytes}"
            );
            let sequenced: usize = decoded
                .txs
                .iter()
                .flat_map(|(_, tx)| tx.actions())
                .filter_map(|a| match a {
                    Action::RollupDataSubmission(s) => Some(s.data.len()),
                    _ => None,
                })
                .sum();
            vensure!(
                sequenced <= SEQUENCED_DATA_LIMIT,
                "proposal-exceeds-sequenced-data-limit",
                "height {height}: the proposal sequences {sequenced} bytes of rollup data (limit {SEQUENCED_DATA_LIMIT})"
            );
            let groups: Vec<_> = decoded.txs.iter().map(|(_, tx)| tx.group()).collect();
            vensure!(
                groups.windows(2).all(|w| w[0] >= w[1]),
                "proposal-not-ordered-by-group",
                "height {height}: transaction groups in the proposal are {groups:?}"
            );
            if decoded.txs.len() < mempool_before {
                ctx.label("proposal-excluded-some-txs");
                nontrivial = true;
            }
            if sequenced > 100_000 || total as i64 > max_tx_bytes / 2 {
                ctx.label("proposal-near-a-size-limit");
            }
            // ---- mutations first (they are other rounds' bad proposals) ------------------------
            let mut applied = 0;
            for kind in 0..N_MUTATIONS {
                let Some((label, mutated)) = mutate(kind, plan.mutation_seed, &block, &decoded, stale.as_ref()) else {
                    continue;
                };
                applied += 1;
                ctx.label(format!("mutation:{label}"));
                let ctx_m = BlockCtx {
                    round: 100 + kind as u32,
                    ..block_ctx.clone()
                };
                let verdict = validator.process_proposal(ctx_m.process_request(mutated)).await;
                vensure!(
                    verdict.is_err(),
                    format!("malformed-proposal-accepted:{label}"),
                    "height {height}: ProcessProposal accepted a proposal mutated by `{label}`"
                );
            }
            let group_count = groups.iter().collect::<BTreeSet<_>>().len();
            if applied > 0 && decoded.txs.len() >= 3 && group_count >= 2 {
                nontrivial = true;
                ctx.label("mutations-on-block-with-3+txs-2+groups");
            }
        }
        // ---- honest validators accept -----------------------------------------------------------
        let own = proposer.process_proposal(block_ctx.process_request(block.clone())).await;
        let other = validator.process_proposal(block_ctx.process_request(block.clone())).await;
        if mode == Mode::C06 {
            for (who, verdict) in [("the proposer itself", &own), ("another validator", &other)] {
                if let Err(error) = verdict {
                    // One shape is a recorded finding: ProcessProposal constructs every
                    // transaction against the state at the start of the block, so a transaction
                    // whose construction-time authority check only passes after an earlier
                    // transaction of the same block (which PrepareProposal executed first) makes
                    // other validators reject the proposer's block.
                    let signature = if l1::is_block_start_construction_shape(error, &block, decoded.injected) {
                        "honest-proposal-rejected:tx-constructed-against-block-start-state"
                    } else {
                        "honest-proposal-rejected"
                    };
                    if ctx.tolerate(signature) {
                        ctx.label(format!("known:{signature}"));
                        // this block cannot be decided; the history ends here
                        ctx.set_nontrivial(nontrivial);
                        return Ok(());
                    }
                    vensure!(
                        false,
                        signature,
                        "height {height}: ProcessProposal on {who} rejected the block PrepareProposal built from {accepted_by_mempool} mempool transactions ({} included): {error}",
                        decoded.txs.len()
                    );
                }
            }
        } else if own.is_err() || other.is_err() {
            // C07 is about blocks that get decided
            ctx.label("noop:proposal-rejected");
            return Ok(());
        }
        // ---- decide, finalize, commit ---------------------------------------------------------------
        let mut outcomes = Vec::new();
        for node in [&mut proposer, &mut validator, &mut syncer] {
            outcomes.push(node.finalize_block(block_ctx.finalize_request(block.clone())).await);
        }
        if outcomes.iter().all(Result::is_err) {
            // FinalizeBlock fails identically on every node (e.g. the extended commit prices a
            // currency pair that a transaction of this block removes): the chain halts here on all
            // nodes alike. That is outside this property (the proposal was well formed and every
            // transaction executed); path-dependence of such failures is C05's subject.
            ctx.label("noop:finalize-fails-on-every-node");
            ctx.set_nontrivial(nontrivial);
            return Ok(());
        }
        let mut responses = Vec::new();
        for outcome in outcomes {
            responses.push(outcome.map_err(|e| {
                vcommon::Failure::new("finalize-failed", format!("height {height}: FinalizeBlock failed on some nodes only: {e}"))
            })?);
        }
        if mode == Mode::C06 {
            let results = &responses[2].tx_results;
            vensure!(
                results.len() == block.len(),
                "proposal-contains-fatally-failing-tx",
                "height {height}: the syncing node produced {} results for {} block items: a proposed transaction failed fatally and was skipped",
                results.len(),
                block.len()
            );
        }
        for node in [&mut proposer, &mut validator, &mut syncer] {
            node.commit().await.map_err(|e| vcommon::Failure::new("commit-failed", e))?;
        }
        if let Some((bytes, _)) = decoded.txs.iter().find(|(_, tx)| !never_takes_effect(tx)) {
            stale = Some(bytes.clone());
        }
        if mode == Mode::C07 {
            let expected = expected_rollup_data(&decoded.txs, &view);
            for data in expected.values().flatten() {
                ctx.label(match data {
                    RollupData::SequencedData(b) if b.is_empty() => "data:empty-payload",
                    RollupData::SequencedData(_) => "data:payload",
                    RollupData::Deposit(_) => "data:deposit",
                    _ => "data:other",
                });
            }
            if check_served_block(&syncer, height, &expected, plan.mutation_seed, ctx).await? {
                nontrivial = true;
            }
            if expected.is_empty() {
                ctx.label("block-without-rollup-data");
            }
        }
    }
    ctx.set_nontrivial(nontrivial);
    Ok(())
}

pub fn run(args: &[String], mode: Mode) -> ! {
    let (id, name, rule, floor): (&'static str, &'static str, &'static str, f64) = match mode {
        Mode::C06 => (
            "C06",
            "proposals",
            "genesis x 1..5 heights; per height 0..8 transactions (all action groups, dependent and gapped \
             nonces, replays, 60-255 kB rollup payloads) enter the proposer's mempool through CheckTx; \
             max_tx_bytes from a few hundred bytes to 1 MiB. Oracle (a): PrepareProposal succeeds, stays \
             within max_tx_bytes and the 256 000-byte sequenced-data limit, is ordered by group, both \
             validators accept it and a syncing node executes every transaction. Oracle (b): each of 9 \
             single-field mutations that breaks a listed condition (commitments, dropped data tx, \
             duplicate, undecodable, bad signature, group order, stale tx, data-item count) is rejected \
             by ProcessProposal. Non-trivial: a block that excluded mempool transactions, or mutations \
             applied to a block with >= 3 transactions over >= 2 groups",
            0.15,
        ),
        Mode::C07 => (
            "C07",
            "served_blocks",
            "the same chains; after every commit the stored block is fetched through the real \
             GetSequencerBlock / GetFilteredSequencerBlock handlers (all 16 subsets of 3 rollup ids + an \
             absent id) and checked with the public client types. Oracle: per rollup the decoded data == \
             payloads in block order then deposits in execution order, computed from the block's \
             transactions alone; rollup id list == rollups with data; filtered subset of full; 6 tamperings \
             (payload flip, reorder, truncate, extend, rollup id change, proof swap / id-list change) of \
             both forms must fail client-side verification. Non-trivial: a block with >= 2 rollups and a \
             deposit",
            0.05,
        ),
    };
    let mut s = Session::from_args(id, "exploration", args);
    s.assume("CometBFT is modelled (synthetic hashes / times, last commits signed by the stored validators)");
    s.run_prop_with(
        Prop {
            name,
            rule,
            cases_quick: 480,
            cases_thorough: 4000,
            shards: 12,
            min_nontrivial: floor,
            max_shrink_iters: 60,
            strategy: Box::new(case),
            test: Box::new(move |case, ctx| world::block_on(run_case(case, mode, ctx))),
        },
        Some(Box::new(simplify)),
    );
    s.finish()
}

#[allow(dead_code)]
fn unused(_: Amt) {}
