//! Sequencer checks: generated histories against the real `App` through `astria_sequencer::verif`.

mod c01;
mod c02;
mod c03;
mod c04;
mod c05;
mod c06;
mod c13;
mod c14;
mod c15;
mod c17;
mod c18;
mod hist;
mod l1;
mod world;

fn main() {
    // node storage is RocksDB in a temp dir: keep it in memory
    if std::env::var_os("VERIF_KEEP_TMPDIR").is_none() && std::path::Path::new("/dev/shm").is_dir() {
        let dir = format!("/dev/shm/verif-{}", std::process::id());
        if std::fs::create_dir_all(&dir).is_ok() {
            std::env::set_var("TMPDIR", &dir);
        }
    }
    let (id, args) = vcommon::split_args();
    match id.as_str() {
        "C01" => c01::run(&args),
        "C02" => c02::run(&args),
        "C03" => c03::run(&args),
        "C04" => c04::run(&args),
        "C05" => c05::run(&args),
        "C06" => c06::run(&args, c06::Mode::C06),
        "C07" => c06::run(&args, c06::Mode::C07),
        "C13" => c13::run(&args),
        "C14" => c14::run(&args),
        "C15" => c15::run(&args),
        "C17" => c17::run(&args),
        "C18" => c18::run(&args),
        "bench" => bench(),
        other => {
            eprintln!("vseq does not host property {other}");
            std::process::exit(2);
        }
    }
}

fn bench() {
    use proptest::strategy::{Strategy as _, ValueTree as _};
    let mut runner = proptest::test_runner::TestRunner::deterministic();
    let strat = hist::history(hist::Bias::default());
    let t = std::time::Instant::now();
    let mut total_ops = 0;
    for _ in 0..20 {
        let h = strat.new_tree(&mut runner).unwrap().current();
        total_ops += h.blocks.iter().map(Vec::len).sum::<usize>();
        struct Nop;
        impl hist::Oracle for Nop {
            fn on_tx(&mut self, obs: &hist::TxObs<'_>, _ctx: &mut vcommon::Ctx) -> vcommon::CaseResult {
                let kinds: Vec<&str> = obs.tx.actions.iter().map(hist::action_row).collect();
                match obs.outcome {
                    astria_sequencer::verif::TxOutcome::Executed(_) => eprintln!("   OK   {kinds:?}"),
                    other => eprintln!("   FAIL {kinds:?}: {}", format!("{other:?}").chars().take(260).collect::<String>()),
                }
                Ok(())
            }
            fn on_ibc(&mut self, obs: &hist::IbcObs<'_>, _ctx: &mut vcommon::Ctx) -> vcommon::CaseResult {
                eprintln!("   IBC {:?} -> {:?} events={}", String::from_utf8_lossy(&obs.info.packet.data), obs.result, obs.events.len());
                Ok(())
            }
        }
        let t0 = std::time::Instant::now();
        let mut ctx = vcommon::Ctx::default();
        let r = world::block_on(hist::run(&h, &mut Nop, &mut ctx));
        eprintln!("case: {} blocks {:?} -> {:?}", h.blocks.len(), t0.elapsed(), r.map(|s| (s.txs_built, s.txs_executed, s.txs_failed, s.ibc_ops)).map_err(|f| f.message));
    }
    eprintln!("20 cases, {total_ops} ops, {:?}", t.elapsed());
    let t = std::time::Instant::now();
    for _ in 0..10 {
        let h = strat.new_tree(&mut runner).unwrap().current();
        world::block_on(async { let _n = world::boot(&h.genesis, 10).await; });
    }
    eprintln!("10 boots {:?}", t.elapsed());
}
