//! The fixed universe all sequencer checks draw from (keys, assets, rollups), the generated
//! genesis description, and node bring-up through the `astria_sequencer::verif` facade.

use std::{
    collections::BTreeMap,
    sync::LazyLock,
};

use astria_core::{
    crypto::SigningKey,
    generated::astria::protocol::genesis::v1 as rawgen,
    primitive::v1::{
        asset::{
            Denom,
            IbcPrefixed,
            TracePrefixed,
        },
        Address,
        RollupId,
    },
    protocol::{
        fees::v1::FeeComponents,
        genesis::v1::{
            GenesisAppState,
            GenesisFees,
        },
        transaction::v1::action::ValidatorUpdate,
    },
    upgrades::{
        test_utils::UpgradesBuilder,
        v1::Upgrades,
    },
    Protobuf as _,
};
use astria_sequencer::verif::{
    self,
    Node,
};
use futures::StreamExt as _;
use proptest::prelude::*;
use serde::{
    Deserialize,
    Serialize,
};
use vcommon::gen::U128;

pub const CHAIN_ID: &str = "verif-1";
pub const PREFIX: &str = "astria";
pub const COMPAT_PREFIX: &str = "astriacompat";
pub const N_KEYS: usize = 8;
pub const N_ASSETS: usize = 4;
pub const N_ROLLUPS: usize = 3;
/// keys that may be (or become) bridge accounts: slot i -> key index
pub const BRIDGE_SLOTS: [usize; 3] = [5, 6, 7];
pub const N_VALIDATOR_KEYS: usize = 5;

pub struct World {
    pub keys: Vec<SigningKey>,
    pub validator_keys: Vec<SigningKey>,
    pub assets: Vec<Denom>,
    pub rollups: Vec<RollupId>,
}

pub static WORLD: LazyLock<World> = LazyLock::new(|| {
    let keys = (0..N_KEYS)
        .map(|i| SigningKey::from([i as u8 + 1; 32]))
        .collect();
    let validator_keys = (0..N_VALIDATOR_KEYS)
        .map(|i| SigningKey::from([0x80 + i as u8; 32]))
        .collect();
    let assets = ["nria", "ufoo", "transfer/channel-0/utia", "transfer/channel-1/uosmo"]
        .iter()
        .map(|s| s.parse::<Denom>().unwrap())
        .collect();
    let rollups = (0..N_ROLLUPS)
        .map(|i| RollupId::from_unhashed_bytes(format!("rollup-{i}")))
        .collect();
    World {
        keys,
        validator_keys,
        assets,
        rollups,
    }
});

impl World {
    pub fn addr_bytes(&self, key: usize) -> [u8; 20] {
        self.keys[key % N_KEYS].address_bytes()
    }

    pub fn addr(&self, key: usize) -> Address {
        address(&self.addr_bytes(key))
    }

    pub fn key_of(&self, address: &[u8; 20]) -> Option<usize> {
        (0..N_KEYS).find(|i| self.addr_bytes(*i) == *address)
    }

    pub fn asset(&self, idx: usize) -> &Denom {
        &self.assets[idx % N_ASSETS]
    }

    pub fn asset_ibc(&self, idx: usize) -> IbcPrefixed {
        self.asset(idx).to_ibc_prefixed()
    }

    pub fn asset_index(&self, ibc: &IbcPrefixed) -> Option<usize> {
        (0..N_ASSETS).find(|i| self.asset_ibc(*i) == *ibc)
    }

    pub fn bridge_key(&self, slot: usize) -> usize {
        BRIDGE_SLOTS[slot % BRIDGE_SLOTS.len()]
    }
}

pub fn address(bytes: &[u8; 20]) -> Address {
    Address::builder()
        .prefix(PREFIX)
        .array(*bytes)
        .try_build()
        .unwrap()
}

/// Names of the fee table rows, in the order used by `GenesisSpec::fees`.
pub const FEE_NAMES: [&str; 18] = [
    "transfer",
    "rollup_data_submission",
    "ics20_withdrawal",
    "init_bridge_account",
    "bridge_lock",
    "bridge_unlock",
    "bridge_sudo_change",
    "bridge_transfer",
    "ibc_relay",
    "validator_update",
    "fee_asset_change",
    "fee_change",
    "ibc_relayer_change",
    "sudo_address_change",
    "ibc_sudo_change",
    "recover_ibc_client",
    "currency_pairs_change",
    "markets_change",
];

#[derive(Clone, Debug, Serialize, Deserialize)]
pub struct BridgeSpec {
    pub rollup: u8,
    pub asset: u8,
    pub sudo: u8,
    pub withdrawer: u8,
}

#[derive(Clone, Debug, Serialize, Deserialize)]
pub struct GenesisSpec {
    pub sudo: u8,
    pub ibc_sudo: u8,
    /// bitmask over keys
    pub relayers: u8,
    /// balances[asset][key]
    pub balances: Vec<Vec<U128>>,
    /// `None` = action disabled; index = FEE_NAMES
    pub fees: Vec<Option<(U128, U128)>>,
    /// bitmask over assets; bit 0 (native) is always set by `normalise`
    pub fee_assets: u8,
    /// one optional bridge per bridge slot
    pub bridges: Vec<Option<BridgeSpec>>,
    pub aspen: u8,
    pub blackburn_after: u8,
    /// (validator key index, power)
    pub validators: Vec<(u8, u32)>,
}

impl GenesisSpec {
    pub fn aspen_height(&self) -> u64 {
        1 + (self.aspen % 3) as u64
    }

    pub fn blackburn_height(&self) -> u64 {
        self.aspen_height() + 1 + (self.blackburn_after % 3) as u64
    }

    pub fn upgrades(&self) -> Upgrades {
        UpgradesBuilder::new()
            .set_aspen(Some(self.aspen_height()))
            .set_blackburn(Some(self.blackburn_height()))
            .build()
    }

    /// Enforces the documented harness precondition: per asset, total supply fits in `u128`.
    pub fn normalised_balances(&self) -> Vec<Vec<u128>> {
        let mut out = Vec::new();
        for asset in 0..N_ASSETS {
            let mut row: Vec<u128> = (0..N_KEYS)
                .map(|k| {
                    self.balances
                        .get(asset)
                        .and_then(|r| r.get(k))
                        .map_or(0, |b| b.0)
                })
                .collect();
            loop {
                let mut sum: Option<u128> = Some(0);
                for b in &row {
                    sum = sum.and_then(|s| s.checked_add(*b));
                }
                if sum.is_some() {
                    break;
                }
                for b in &mut row {
                    *b >>= 3;
                }
            }
            out.push(row);
        }
        out
    }

    pub fn validators(&self) -> Vec<ValidatorUpdate> {
        let mut seen = BTreeMap::new();
        for (key, power) in &self.validators {
            let key = *key as usize % N_VALIDATOR_KEYS;
            seen.entry(key).or_insert((*power).max(1));
        }
        if seen.is_empty() {
            seen.insert(0, 10);
        }
        seen.into_iter()
            .map(|(key, power)| ValidatorUpdate {
                power,
                verification_key: WORLD.validator_keys[key].verification_key(),
                name: format!("val{key}").parse().unwrap(),
            })
            .collect()
    }

    pub fn fee(&self, idx: usize) -> Option<(u128, u128)> {
        if FEE_NAMES[idx] == "fee_change" {
            // non-optional in genesis
            return Some(
                self.fees
                    .get(idx)
                    .cloned()
                    .flatten()
                    .map_or((0, 0), |(b, m)| (b.0, m.0)),
            );
        }
        self.fees.get(idx).cloned().flatten().map(|(b, m)| (b.0, m.0))
    }

    pub fn genesis_app_state(&self) -> GenesisAppState {
        let w = &*WORLD;
        let balances = self.normalised_balances();
        let accounts = (0..N_KEYS)
            .filter(|k| balances[0][*k] > 0)
            .map(|k| rawgen::Account {
                address: Some(w.addr(k).into_raw()),
                balance: Some(balances[0][k].into()),
            })
            .collect();
        macro_rules! fc {
            ($i:expr) => {
                self.fee($i).map(|(b, m)| FeeComponents::new(b, m))
            };
        }
        let fees = GenesisFees {
            transfer: fc!(0),
            rollup_data_submission: fc!(1),
            ics20_withdrawal: fc!(2),
            init_bridge_account: fc!(3),
            bridge_lock: fc!(4),
            bridge_unlock: fc!(5),
            bridge_sudo_change: fc!(6),
            bridge_transfer: fc!(7),
            ibc_relay: fc!(8),
            validator_update: fc!(9),
            fee_asset_change: fc!(10),
            fee_change: fc!(11).unwrap(),
            ibc_relayer_change: fc!(12),
            sudo_address_change: fc!(13),
            ibc_sudo_change: fc!(14),
            recover_ibc_client: fc!(15),
            currency_pairs_change: fc!(16),
            markets_change: fc!(17),
        };
        // only the native asset can be named at genesis with certainty; other fee assets are
        // written when seeding (they must be registered IBC assets first)
        let raw = rawgen::GenesisAppState {
            chain_id: CHAIN_ID.to_string(),
            address_prefixes: Some(rawgen::AddressPrefixes {
                base: PREFIX.into(),
                ibc_compat: COMPAT_PREFIX.into(),
            }),
            accounts,
            authority_sudo_address: Some(w.addr(self.sudo as usize).into_raw()),
            ibc_sudo_address: Some(w.addr(self.ibc_sudo as usize).into_raw()),
            ibc_relayer_addresses: (0..N_KEYS)
                .filter(|k| self.relayers & (1 << k) != 0)
                .map(|k| w.addr(k).into_raw())
                .collect(),
            native_asset_base_denomination: "nria".to_string(),
            ibc_parameters: Some(rawgen::IbcParameters {
                ibc_enabled: true,
                inbound_ics20_transfers_enabled: true,
                outbound_ics20_transfers_enabled: true,
            }),
            allowed_fee_assets: vec!["nria".to_string()],
            fees: Some(fees.to_raw()),
        };
        GenesisAppState::try_from_raw(raw).expect("generated genesis must be valid")
    }
}

pub fn fee_pair() -> BoxedStrategy<Option<(U128, U128)>> {
    let small = || {
        prop_oneof![
            4 => Just(0_u128),
            6 => 1_u128..50,
            2 => 50_u128..100_000,
        ]
    };
    prop_oneof![
        12 => (small(), small()).prop_map(|(b, m)| Some((U128(b), U128(m)))),
        1 => Just(None),
        1 => (vcommon::gen::amount_u128(), vcommon::gen::amount_u128())
            .prop_map(|(b, m)| Some((U128(b), U128(m)))),
    ]
    .boxed()
}

pub fn balance() -> BoxedStrategy<U128> {
    prop_oneof![
        2 => Just(0_u128),
        14 => 1_000_000_u128..1_000_000_000_000_000,
        2 => 0_u128..1_000,
        2 => (u64::MAX as u128 - 2)..(u64::MAX as u128 + 2),
        1 => Just(1_u128 << 127),
        1 => Just(u128::MAX),
        1 => Just(u128::MAX - 1),
    ]
    .prop_map(U128)
    .boxed()
}

pub fn genesis_spec(bridge_prob: u32) -> BoxedStrategy<GenesisSpec> {
    let bridge = (0_u8..N_ROLLUPS as u8, 0_u8..N_ASSETS as u8, 0_u8..N_KEYS as u8, 0_u8..N_KEYS as u8)
        .prop_map(|(rollup, asset, sudo, withdrawer)| BridgeSpec {
            rollup,
            asset,
            sudo,
            withdrawer,
        });
    (
        (0_u8..N_KEYS as u8, 0_u8..N_KEYS as u8, any::<u8>()),
        proptest::collection::vec(proptest::collection::vec(balance(), N_KEYS), N_ASSETS),
        proptest::collection::vec(fee_pair(), FEE_NAMES.len()),
        any::<u8>(),
        proptest::collection::vec(
            if bridge_prob == 0 {
                Just(None).boxed()
            } else {
                proptest::option::weighted(f64::from(bridge_prob.min(99)) / 100.0, bridge).boxed()
            },
            BRIDGE_SLOTS.len(),
        ),
        (0_u8..3, 0_u8..3),
        proptest::collection::vec(
            (
                0_u8..N_VALIDATOR_KEYS as u8,
                prop_oneof![Just(1_u32), Just(5), Just(10), 1_u32..100],
            ),
            1..5,
        ),
    )
        .prop_map(
            |((sudo, ibc_sudo, relayers), balances, fees, fee_assets, bridges, (aspen, bb), validators)| {
                GenesisSpec {
                    sudo,
                    ibc_sudo,
                    relayers,
                    balances,
                    fees,
                    fee_assets: fee_assets | 1,
                    bridges,
                    aspen,
                    blackburn_after: bb,
                    validators,
                }
            },
        )
        .boxed()
}

/// Boots a node: `init_chain`, then seeds non-native balances, IBC assets, allowed fee assets and
/// bridge accounts through the crate's own state writers, and commits.
pub async fn boot(spec: &GenesisSpec, parked_max: usize) -> Node {
    let w = &*WORLD;
    let mut node = Node::new(spec.upgrades(), parked_max).await;
    node.init_chain(
        spec.genesis_app_state(),
        spec.validators(),
        CHAIN_ID.to_string(),
    )
    .await
    .expect("init_chain");
    let balances = spec.normalised_balances();
    let mut tx = node.begin_state_tx();
    for asset in 1..N_ASSETS {
        let Denom::TracePrefixed(trace) = w.asset(asset).clone() else {
            unreachable!()
        };
        verif::write::ibc_asset(&mut tx, trace).unwrap();
        for key in 0..N_KEYS {
            if balances[asset][key] > 0 {
                verif::write::account_balance(
                    &mut tx,
                    &w.addr_bytes(key),
                    &w.asset_ibc(asset),
                    balances[asset][key],
                )
                .unwrap();
            }
        }
        if spec.fee_assets & (1 << asset) != 0 {
            verif::write::allowed_fee_asset(&mut tx, &w.asset_ibc(asset)).unwrap();
        }
    }
    for (slot, bridge) in spec.bridges.iter().enumerate() {
        if let Some(bridge) = bridge {
            verif::write::bridge_account(
                &mut tx,
                &w.addr_bytes(w.bridge_key(slot)),
                w.rollups[bridge.rollup as usize % N_ROLLUPS],
                w.asset_ibc(bridge.asset as usize),
                w.addr_bytes(bridge.sudo as usize),
                w.addr_bytes(bridge.withdrawer as usize),
            )
            .unwrap();
        }
    }
    node.apply_state_tx(tx);
    node.commit_seeded_state().await.expect("commit seeded state");
    node
}

// ---------------------------------------------------------------------------------------------
// state dumps
// ---------------------------------------------------------------------------------------------

#[derive(Clone, Debug, Default, PartialEq, Eq)]
pub struct Dump {
    pub verifiable: BTreeMap<String, Vec<u8>>,
    pub nonverifiable: BTreeMap<Vec<u8>, Vec<u8>>,
    /// block-fee pot (ephemeral), by ibc-prefixed asset text
    pub block_fees: BTreeMap<String, u128>,
    /// cached deposits of the block in progress (ephemeral), rendered, per rollup in order
    pub cached_deposits: Vec<String>,
    /// (address, asset) -> balance, decoded through the crate's own reader
    pub balances: BTreeMap<([u8; 20], String), u128>,
    /// (channel, asset) -> escrow balance
    pub escrow: BTreeMap<(String, String), u128>,
    pub nonces: BTreeMap<[u8; 20], u32>,
}

fn b64_addr(text: &str) -> Option<[u8; 20]> {
    use base64::Engine as _;
    let bytes = base64::engine::general_purpose::URL_SAFE.decode(text).ok()?;
    bytes.try_into().ok()
}

pub fn render_deposit(d: &astria_core::sequencerblock::v1::block::Deposit) -> String {
    format!(
        "bridge={} rollup={} amount={} asset={} dest={} tx={} idx={}",
        hex::encode(d.bridge_address.bytes()),
        d.rollup_id,
        d.amount,
        d.asset,
        d.destination_chain_address,
        d.source_transaction_id,
        d.source_action_index
    )
}

/// Reads *everything*: all verifiable and non-verifiable keys seen through `state`, and the
/// ephemeral per-block objects the properties talk about.
pub async fn dump<S: cnidarium::StateRead>(state: &S) -> Dump {
    let mut out = Dump::default();
    let mut stream = Box::pin(state.prefix_raw(""));
    while let Some(item) = stream.next().await {
        let (key, value) = item.expect("prefix_raw");
        out.verifiable.insert(key, value);
    }
    drop(stream);
    let mut stream = Box::pin(state.nonverifiable_prefix_raw(b""));
    while let Some(item) = stream.next().await {
        let (key, value) = item.expect("nonverifiable_prefix_raw");
        out.nonverifiable.insert(key, value);
    }
    drop(stream);
    for key in out.verifiable.keys() {
        if let Some(rest) = key.strip_prefix("accounts/") {
            if let Some((addr, asset)) = rest.split_once("/balance/") {
                let (Some(addr), Ok(asset)) = (b64_addr(addr), asset.parse::<IbcPrefixed>()) else {
                    panic!("harness: unexpected balance key `{key}`");
                };
                let balance = verif::read::account_balance(state, &addr, &asset)
                    .await
                    .unwrap_or_else(|e| panic!("harness: unreadable balance `{key}`: {e}"));
                out.balances.insert((addr, asset.to_string()), balance);
            } else if let Some(addr) = rest.strip_suffix("/nonce") {
                let Some(addr) = b64_addr(addr) else {
                    panic!("harness: unexpected nonce key `{key}`");
                };
                let nonce = verif::read::account_nonce(state, &addr)
                    .await
                    .unwrap_or_else(|e| panic!("harness: unreadable nonce `{key}`: {e}"));
                out.nonces.insert(addr, nonce);
            }
        } else if let Some(rest) = key.strip_prefix("ibc/") {
            if let Some((channel, asset)) = rest.split_once("/balance/") {
                let (Ok(channel_id), Ok(asset)) = (
                    channel.parse::<ibc_types::core::channel::ChannelId>(),
                    asset.parse::<IbcPrefixed>(),
                ) else {
                    panic!("harness: unexpected escrow key `{key}`");
                };
                let balance = verif::read::ibc_channel_balance(state, &channel_id, &asset)
                    .await
                    .unwrap_or_else(|e| panic!("harness: unreadable escrow `{key}`: {e}"));
                out.escrow
                    .insert((channel.to_string(), asset.to_string()), balance);
            }
        }
    }
    for (asset, amount) in verif::read::block_fees(state) {
        out.block_fees.insert(asset.to_string(), amount);
    }
    let mut deposits: Vec<_> = verif::read::cached_block_deposits(state).into_iter().collect();
    deposits.sort_by_key(|(rollup, _)| *rollup);
    for (_, list) in deposits {
        for deposit in list {
            out.cached_deposits.push(render_deposit(&deposit));
        }
    }
    out
}

/// Runs `fut` on a fresh current-thread runtime with a paused clock.
pub fn block_on<F: std::future::Future>(fut: F) -> F::Output {
    tokio::runtime::Builder::new_current_thread()
        .enable_all()
        .start_paused(true)
        .build()
        .expect("runtime")
        .block_on(fut)
}

pub fn trace(denom: &Denom) -> TracePrefixed {
    match denom {
        Denom::TracePrefixed(t) => t.clone(),
        Denom::IbcPrefixed(_) => panic!("harness assets are trace prefixed"),
    }
}
