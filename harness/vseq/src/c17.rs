//! C17 (sequencer part) — bytes arriving through CheckTx never panic the service; what the mempool
//! accepts is a validly signed transaction.

use astria_core::{
    generated::astria::protocol::transaction::v1 as rawtx,
    protocol::transaction::v1::Transaction,
    Protobuf as _,
};
use prost::Message as _;
use proptest::prelude::*;
use serde::{
    Deserialize,
    Serialize,
};
use vcommon::{
    gen::HexBytes,
    vensure,
    vfail,
    wire::mutation::{
        self,
        Mutation,
    },
    CaseResult,
    Ctx,
    Prop,
    Session,
    Tier,
};

use crate::{
    hist::{
        self,
        ATx,
        Bias,
        View,
    },
    world::{
        self,
        GenesisSpec,
    },
};

#[derive(Clone, Debug, Serialize, Deserialize)]
pub struct Case {
    genesis: GenesisSpec,
    txs: Vec<(ATx, Vec<Mutation>)>,
    raw: Vec<HexBytes>,
}

fn case(_tier: Tier) -> BoxedStrategy<Case> {
    let bias = Bias {
        currency_pairs: 2,
        ics20: 3,
        bad_nonce_pct: 5,
        wrong_signer_pct: 5,
        ..Bias::default()
    };
    (
        world::genesis_spec(70),
        proptest::collection::vec(
            (hist::atx(&bias), proptest::collection::vec(mutation::strategy(), 0..=3)),
            4..24,
        ),
        proptest::collection::vec(vcommon::gen::hex_serde_bytes(120), 0..4),
    )
        .prop_map(|(genesis, txs, raw)| Case {
            genesis,
            txs,
            raw,
        })
        .boxed()
}

async fn run_case(case: &Case, ctx: &mut Ctx) -> CaseResult {
    let mut node = world::boot(&case.genesis, 30).await;
    hist::seed_ibc(&mut node).await;
    let pre = world::dump(node.state()).await;
    let view = View::read(node.state()).await;
    let mut inputs: Vec<(Vec<u8>, bool)> = Vec::new();
    let built: Vec<hist::BuiltTx> = Vec::new();
    for (atx, mutations) in &case.txs {
        let Some(tx) = hist::concretize(atx, &view, &pre, &built, 1) else {
            continue;
        };
        let (mutated, applied) = mutation::mutate(&tx.bytes, mutations);
        inputs.push((mutated, applied > 0));
    }
    for raw in &case.raw {
        inputs.push((raw.0.clone(), true));
    }
    for (bytes, mutated) in inputs {
        let reaches_validation = rawtx::Transaction::decode(bytes.as_slice()).is_ok();
        if mutated && reaches_validation {
            ctx.nontrivial();
            ctx.label("mutated-tx-reaches-validation");
        }
        // a panic inside the service propagates out of the test function and is reported as a
        // violation (`panic:<file>:...`) by the runner
        let response = node.check_tx(bytes.clone().into(), false).await;
        if response.code.is_ok() {
            ctx.label(if mutated { "accepted-after-mutation" } else { "accepted" });
            let Ok(raw) = rawtx::Transaction::decode(bytes.as_slice()) else {
                vfail!("mempool-accepted-undecodable-bytes", "CheckTx accepted bytes that are not a transaction");
            };
            let tx = match Transaction::try_from_raw(raw) {
                Ok(tx) => tx,
                Err(e) => vfail!("mempool-accepted-invalid-transaction", "CheckTx accepted a transaction the public decoder rejects: {e}"),
            };
            let body = tx.to_raw().body.unwrap_or_default();
            vensure!(
                tx.verification_key().verify(&tx.signature(), &body.value).is_ok(),
                "mempool-accepted-badly-signed-transaction",
                "CheckTx accepted a transaction whose signature does not verify"
            );
        } else {
            ctx.label("refused");
        }
    }
    Ok(())
}

pub fn run(args: &[String]) -> ! {
    let mut s = Session::from_args("C17", "exploration", args);
    s.run_prop(Prop {
        name: "check_tx_bytes",
        rule: "a live node (generated genesis) receives through the real CheckTx service 4..24 signed \
               transactions of all generated action types, each with 0..3 protobuf-field-level or \
               byte-level mutations, plus raw random byte strings. Oracle: no panic; whatever CheckTx \
               accepts decodes with the public decoder and carries a valid signature. Non-trivial: a \
               mutated transaction that still parses as protobuf",
        cases_quick: 480,
        cases_thorough: 10_000,
        shards: 12,
        min_nontrivial: 0.3,
        max_shrink_iters: 200,
        strategy: Box::new(case),
        test: Box::new(|case, ctx| world::block_on(run_case(case, ctx))),
    });
    s.finish()
}
