//! C04 — bridge solvency: deposits are backed, withdrawals are paid at most once.

use std::collections::{
    BTreeMap,
    BTreeSet,
};

use astria_core::protocol::transaction::v1::Action;
use astria_sequencer::verif::TxOutcome;
use num_bigint::BigInt;
use vcommon::{
    vensure,
    CaseResult,
    Ctx,
    Prop,
    Session,
};

use crate::{
    c01::{
        balance_deltas,
        short,
    },
    hist::{
        self,
        i128w,
        Bias,
        History,
        IbcKind,
        IbcObs,
        Oracle,
        TxObs,
    },
    world::{
        self,
        Dump,
    },
};

#[derive(Default)]
pub struct C04Oracle {
    /// (bridge address, event id) honoured so far -> carrier
    honoured: BTreeMap<([u8; 20], String), &'static str>,
    deposits_seen: usize,
    reuse_attempt_other_carrier: bool,
    carriers: BTreeSet<&'static str>,
}

/// New entries of the cached deposit list (`post` minus `pre`), parsed.
#[derive(Debug, Clone)]
struct Dep {
    bridge: [u8; 20],
    rollup: String,
    amount: u128,
    asset: String,
}

fn parse_deposit(text: &str) -> Dep {
    let mut bridge = [0_u8; 20];
    let mut rollup = String::new();
    let mut amount = 0;
    let mut asset = String::new();
    for part in text.split(' ') {
        if let Some(v) = part.strip_prefix("bridge=") {
            bridge = hex::decode(v).unwrap().try_into().unwrap();
        } else if let Some(v) = part.strip_prefix("rollup=") {
            rollup = v.to_string();
        } else if let Some(v) = part.strip_prefix("amount=") {
            amount = v.parse().unwrap();
        } else if let Some(v) = part.strip_prefix("asset=") {
            asset = v.to_string();
        }
    }
    Dep {
        bridge,
        rollup,
        amount,
        asset,
    }
}

fn new_deposits(pre: &Dump, post: &Dump) -> Result<Vec<Dep>, String> {
    // deposits are only ever appended (per rollup); compare as multisets
    let mut before: BTreeMap<&String, usize> = BTreeMap::new();
    for d in &pre.cached_deposits {
        *before.entry(d).or_default() += 1;
    }
    let mut out = Vec::new();
    for d in &post.cached_deposits {
        match before.get_mut(d) {
            Some(n) if *n > 0 => *n -= 1,
            _ => out.push(parse_deposit(d)),
        }
    }
    if before.values().any(|n| *n > 0) {
        return Err("a previously cached deposit disappeared".to_string());
    }
    Ok(out)
}

fn deposit_events(events: &[tendermint::abci::Event]) -> usize {
    events.iter().filter(|e| e.kind == "tx.deposit").count()
}

impl C04Oracle {
    fn check_backing(
        &mut self,
        what: &str,
        height: u64,
        deposits: &[Dep],
        pre: &Dump,
        post: &Dump,
        view: &hist::View,
        outflows: &BTreeMap<[u8; 20], BigInt>,
        fees_paid_by: Option<(&[u8; 20], &BTreeMap<String, BigInt>)>,
    ) -> CaseResult {
        let deltas = balance_deltas(pre, post);
        let mut per_bridge: BTreeMap<[u8; 20], BigInt> = BTreeMap::new();
        for d in deposits {
            let Some(bridge) = view.bridge_at(&d.bridge) else {
                vensure!(
                    false,
                    "deposit-for-non-bridge",
                    "height {height}: {what} published a deposit naming {} which is not a bridge account",
                    short(&d.bridge)
                );
                unreachable!()
            };
            vensure!(
                bridge.rollup_id.to_string() == d.rollup,
                "deposit-wrong-rollup",
                "height {height}: {what}: deposit for bridge {} names rollup {} but the bridge serves {}",
                short(&d.bridge),
                d.rollup,
                bridge.rollup_id
            );
            let deposit_asset: astria_core::primitive::v1::asset::Denom = d.asset.parse().unwrap();
            vensure!(
                deposit_asset.to_ibc_prefixed() == bridge.asset,
                "deposit-wrong-asset",
                "height {height}: {what}: deposit for bridge {} in asset {} but the bridge holds {}",
                short(&d.bridge),
                d.asset,
                bridge.asset
            );
            *per_bridge.entry(d.bridge).or_default() += i128w::u(d.amount);
        }
        for (bridge_addr, deposited) in per_bridge {
            let bridge = view.bridge_at(&bridge_addr).unwrap();
            let asset = bridge.asset.to_string();
            let delta = deltas
                .get(&(bridge_addr, asset.clone()))
                .cloned()
                .unwrap_or_default();
            let out = outflows.get(&bridge_addr).cloned().unwrap_or_default();
            let fees = match fees_paid_by {
                Some((payer, fees)) if *payer == bridge_addr => fees.get(&asset).cloned().unwrap_or_default(),
                _ => BigInt::from(0),
            };
            // credit received = net change + what left the account in the same transaction
            let credited = delta.clone() + out.clone() + fees.clone();
            vensure!(
                credited >= deposited,
                "deposit-not-backed",
                "height {height}: {what}: deposits of {deposited} were published for bridge {} but it was only credited {credited} (net change {delta}, outflows {out}, fees {fees})",
                short(&bridge_addr)
            );
        }
        Ok(())
    }
}

impl Oracle for C04Oracle {
    fn on_tx(&mut self, obs: &TxObs<'_>, ctx: &mut Ctx) -> CaseResult {
        let tx = obs.tx;
        let kinds: Vec<&str> = tx.actions.iter().map(hist::action_row).collect();
        let what = format!("{kinds:?} signed by {}", short(&tx.signer));
        let deposits = match new_deposits(obs.pre, obs.post) {
            Ok(d) => d,
            Err(why) => {
                vensure!(false, "deposit-list-corrupted", "height {}: {what}: {why}", obs.height);
                unreachable!()
            }
        };
        // event ids carried by this transaction: (bridge, id, carrier)
        let mut carried: Vec<([u8; 20], String, &'static str)> = Vec::new();
        for action in &tx.actions {
            match action {
                Action::BridgeUnlock(a) => carried.push((
                    a.bridge_address.bytes(),
                    a.rollup_withdrawal_event_id.clone(),
                    "unlock",
                )),
                Action::BridgeTransfer(a) => carried.push((
                    a.bridge_address.bytes(),
                    a.rollup_withdrawal_event_id.clone(),
                    "transfer",
                )),
                Action::Ics20Withdrawal(a) => {
                    let source = a.bridge_address.map_or(tx.signer, |b| b.bytes());
                    if obs.view.bridge_at(&source).is_some() || a.bridge_address.is_some() {
                        if let Ok(memo) = serde_json::from_str::<
                            astria_core::protocol::memos::v1::Ics20WithdrawalFromRollup,
                        >(&a.memo)
                        {
                            carried.push((source, memo.rollup_withdrawal_event_id, "ics20"));
                        }
                    }
                }
                _ => {}
            }
        }
        for (bridge, id, carrier) in &carried {
            if let Some(first) = self.honoured.get(&(*bridge, id.clone())) {
                if first != carrier {
                    self.reuse_attempt_other_carrier = true;
                    ctx.label("event-id-reuse-attempt-via-other-carrier");
                } else {
                    ctx.label("event-id-reuse-attempt-same-carrier");
                }
            }
        }
        let TxOutcome::Executed(events) = obs.outcome else {
            vensure!(
                deposits.is_empty() && obs.pre.cached_deposits == obs.post.cached_deposits,
                "deposit-from-failed-tx",
                "height {}: {what} failed but {} deposit(s) stayed registered",
                obs.height,
                deposits.len()
            );
            return Ok(());
        };
        vensure!(
            deposit_events(events) == deposits.len(),
            "deposit-events-differ-from-registered",
            "height {}: {what}: {} tx.deposit event(s) but {} deposit(s) registered for the block",
            obs.height,
            deposit_events(events),
            deposits.len()
        );
        // a withdrawal event id is honoured at most once per bridge, whatever carries it
        let mut in_this_tx: BTreeSet<([u8; 20], String)> = BTreeSet::new();
        for (bridge, id, carrier) in &carried {
            let key = (*bridge, id.clone());
            vensure!(
                !self.honoured.contains_key(&key) && in_this_tx.insert(key.clone()),
                "withdrawal-event-honoured-twice",
                "height {}: {what}: withdrawal event `{id}` of bridge {} was honoured again via {carrier} (first via {:?})",
                obs.height,
                short(bridge),
                self.honoured.get(&key)
            );
        }
        for (bridge, id, carrier) in carried {
            self.honoured.insert((bridge, id), carrier);
            self.carriers.insert(carrier);
        }
        // backing
        let mut outflows: BTreeMap<[u8; 20], BigInt> = BTreeMap::new();
        for action in &tx.actions {
            match action {
                Action::BridgeUnlock(a) => {
                    *outflows.entry(a.bridge_address.bytes()).or_default() += i128w::u(a.amount);
                }
                Action::BridgeTransfer(a) => {
                    *outflows.entry(a.bridge_address.bytes()).or_default() += i128w::u(a.amount);
                }
                Action::Ics20Withdrawal(a) => {
                    let source = a.bridge_address.map_or(tx.signer, |b| b.bytes());
                    *outflows.entry(source).or_default() += i128w::u(a.amount);
                }
                _ => {}
            }
        }
        let mut fees: BTreeMap<String, BigInt> = BTreeMap::new();
        for (_, asset, amount, _) in hist::fee_events(events) {
            *fees.entry(asset).or_default() += i128w::u(amount);
        }
        self.deposits_seen += deposits.len();
        if !deposits.is_empty() {
            ctx.label("tx-with-deposit");
        }
        self.check_backing(
            &what,
            obs.height,
            &deposits,
            obs.pre,
            obs.post,
            obs.view,
            &outflows,
            Some((&tx.signer, &fees)),
        )
    }

    fn on_ibc(&mut self, obs: &IbcObs<'_>, ctx: &mut Ctx) -> CaseResult {
        let what = format!(
            "{} of packet {}",
            match obs.kind {
                IbcKind::Recv => "receive",
                IbcKind::Ack { .. } => "acknowledgement",
                IbcKind::Timeout => "timeout",
            },
            String::from_utf8_lossy(&obs.info.packet.data)
        );
        let deposits = match new_deposits(obs.pre, obs.post) {
            Ok(d) => d,
            Err(why) => {
                vensure!(false, "deposit-list-corrupted", "height {}: {what}: {why}", obs.height);
                unreachable!()
            }
        };
        vensure!(
            deposit_events(obs.events) == deposits.len(),
            "deposit-events-differ-from-registered",
            "height {}: {what}: {} tx.deposit event(s) but {} deposit(s) registered",
            obs.height,
            deposit_events(obs.events),
            deposits.len()
        );
        if !deposits.is_empty() {
            ctx.label("ibc-deposit");
            self.deposits_seen += deposits.len();
        }
        // a packet that did not take effect (no balance moved) must not publish a deposit
        if balance_deltas(obs.pre, obs.post).is_empty() {
            vensure!(
                deposits.is_empty(),
                "deposit-from-packet-without-effect",
                "height {}: {what} moved no funds (result {:?}) but registered {} deposit(s)",
                obs.height,
                obs.result,
                deposits.len()
            );
        }
        self.check_backing(
            &what,
            obs.height,
            &deposits,
            obs.pre,
            obs.post,
            obs.view,
            &BTreeMap::new(),
            None,
        )
    }
}

fn bias() -> Bias {
    Bias {
        currency_pairs: 0,
        transfer: 2,
        rollup: 1,
        bridge: 14,
        ics20: 5,
        bridge_admin: 4,
        sudo: 1,
        validator: 0,
        ibc_in: 5,
        wrong_signer_pct: 10,
        bad_nonce_pct: 4,
        max_blocks: 6,
        max_ops: 9,
        max_actions: 4,
        bridge_genesis_pct: 90,
    }
}

fn case(history: &History, ctx: &mut Ctx) -> CaseResult {
    let mut oracle = C04Oracle::default();
    let stats = world::block_on(hist::run(history, &mut oracle, ctx))?;
    ctx.set_nontrivial(oracle.deposits_seen >= 1 && oracle.reuse_attempt_other_carrier);
    if oracle.deposits_seen >= 1 {
        ctx.label("history-with-deposit");
    }
    ctx.note("deposits", oracle.deposits_seen);
    ctx.note("txs_executed", stats.txs_executed);
    ctx.note("carriers", oracle.carriers.iter().collect::<Vec<_>>());
    Ok(())
}

pub fn run(args: &[String]) -> ! {
    let mut s = Session::from_args("C04", "exploration", args);
    s.assume("transactions are stepped through App::execute_transaction; IBC packets enter at the ICS-20 application handler; the deposits compared are the block's cached deposit list and the tx.deposit events (the stored block's deposits are covered by C07)");
    s.run_prop_with(Prop {
        name: "histories",
        rule: "generated genesis with up to 3 bridge accounts x 1..6 blocks x 0..9 operations biased to \
               locks, unlocks, bridge-to-bridge transfers (including self transfers), bridge ICS-20 \
               withdrawals, IBC receives / refunds into bridges, bridge administration; withdrawal \
               event ids from a pool of 4 reused across carriers and blocks. Oracle: every new deposit \
               names a bridge account with matching rollup and asset and is covered by a credit of \
               that account in the same transaction/packet; failed transactions and packets without \
               effect register none; a (bridge, event id) pair is honoured at most once. \
               Non-trivial: >= 1 deposit and >= 1 attempt to reuse an honoured event id through a \
               different action type",
        cases_quick: 1400,
        cases_thorough: 25_000,
        shards: 12,
        min_nontrivial: 0.03,
        max_shrink_iters: 200,
        strategy: Box::new(|_| hist::history(bias())),
        test: Box::new(case),
    }, Some(hist::simplifier()));
    s.finish()
}
