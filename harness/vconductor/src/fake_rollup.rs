//! A contract-enforcing fake rollup: an in-process tonic server implementing
//! `astria.execution.v2.ExecutionService` that logs every RPC.
//!
//! Behaviour of a deterministic rollup: `ExecuteBlock` on a known parent yields the block
//! `number = parent.number + 1`, `hash = H(parent hash, sequencer block hash)`; an unknown parent is
//! a failed precondition. `UpdateCommitmentState` is recorded and echoed (the oracle judges it).

use std::{
    collections::HashMap,
    sync::{
        Arc,
        Mutex,
    },
};

use astria_core::generated::astria::execution::v2::{
    self as raw,
    execution_service_server::{
        ExecutionService,
        ExecutionServiceServer,
    },
};
use sha2::{
    Digest as _,
    Sha256,
};
use tonic::{
    Request,
    Response,
    Status,
};

#[derive(Clone, Debug, PartialEq, Eq)]
pub struct BlockRecord {
    pub number: u64,
    pub hash: String,
    pub parent_hash: String,
    /// hex of the sequencer block hash the block was executed from
    pub sequencer_block_hash: String,
    /// executed during this session (by an `ExecuteBlock` RPC)
    pub in_session: bool,
}

/// (some fields are only read through `Debug` when a violation is reported)
#[allow(dead_code)]
#[derive(Clone, Debug)]
pub enum Rpc {
    CreateSession,
    Execute {
        parent_hash: String,
        sequencer_block_hash: String,
        transactions: usize,
        /// `None`: rejected (unknown parent / wrong session)
        result: Option<BlockRecord>,
    },
    Update {
        session_ok: bool,
        firm_number: u64,
        firm_hash: String,
        soft_number: u64,
        soft_hash: String,
        lowest_celestia_search_height: u64,
    },
    GetBlock {
        number: Option<u64>,
        found: bool,
    },
}

pub struct RollupState {
    pub session_id: String,
    pub parameters: raw::ExecutionSessionParameters,
    pub blocks: HashMap<String, BlockRecord>,
    pub firm: raw::ExecutedBlockMetadata,
    pub soft: raw::ExecutedBlockMetadata,
    pub lowest_celestia_search_height: u64,
    pub log: Vec<Rpc>,
}

pub fn timestamp() -> pbjson_types::Timestamp {
    pbjson_types::Timestamp {
        seconds: 1_700_000_000,
        nanos: 0,
    }
}

pub fn metadata(record: &BlockRecord) -> raw::ExecutedBlockMetadata {
    raw::ExecutedBlockMetadata {
        number: record.number,
        hash: record.hash.clone(),
        parent_hash: record.parent_hash.clone(),
        timestamp: Some(timestamp()),
        sequencer_block_hash: record.sequencer_block_hash.clone(),
    }
}

pub fn child_hash(parent_hash: &str, sequencer_block_hash: &str) -> String {
    let mut h = Sha256::new();
    h.update(b"fake-rollup-block");
    h.update(parent_hash.as_bytes());
    h.update([0]);
    h.update(sequencer_block_hash.as_bytes());
    hex::encode(h.finalize())
}

impl RollupState {
    /// The block with number `number` on the chain that ends in the soft head.
    pub fn canonical(&self, number: u64) -> Option<&BlockRecord> {
        let mut current = self.blocks.get(&self.soft.hash)?;
        while current.number > number {
            current = self.blocks.get(&current.parent_hash)?;
        }
        (current.number == number).then_some(current)
    }
}

#[derive(Clone)]
pub struct FakeRollup(pub Arc<Mutex<RollupState>>);

#[tonic::async_trait]
impl ExecutionService for FakeRollup {
    async fn create_execution_session(
        self: Arc<Self>,
        _request: Request<raw::CreateExecutionSessionRequest>,
    ) -> Result<Response<raw::ExecutionSession>, Status> {
        let mut state = self.0.lock().unwrap();
        state.log.push(Rpc::CreateSession);
        Ok(Response::new(raw::ExecutionSession {
            session_id: state.session_id.clone(),
            execution_session_parameters: Some(state.parameters.clone()),
            commitment_state: Some(raw::CommitmentState {
                soft_executed_block_metadata: Some(state.soft.clone()),
                firm_executed_block_metadata: Some(state.firm.clone()),
                lowest_celestia_search_height: state.lowest_celestia_search_height,
            }),
        }))
    }

    async fn get_executed_block_metadata(
        self: Arc<Self>,
        request: Request<raw::GetExecutedBlockMetadataRequest>,
    ) -> Result<Response<raw::ExecutedBlockMetadata>, Status> {
        let mut state = self.0.lock().unwrap();
        let number = match request.into_inner().identifier.and_then(|i| i.identifier) {
            Some(raw::executed_block_identifier::Identifier::Number(number)) => Some(number),
            _ => None,
        };
        let found = number.and_then(|n| state.canonical(n)).cloned();
        state.log.push(Rpc::GetBlock {
            number,
            found: found.is_some(),
        });
        match found {
            Some(record) => Ok(Response::new(metadata(&record))),
            // not `NotFound`: conductor retries that code forever
            None => Err(Status::out_of_range("no such block on the canonical chain")),
        }
    }

    async fn execute_block(
        self: Arc<Self>,
        request: Request<raw::ExecuteBlockRequest>,
    ) -> Result<Response<raw::ExecuteBlockResponse>, Status> {
        let mut state = self.0.lock().unwrap();
        let request = request.into_inner();
        let parent = state.blocks.get(&request.parent_hash).cloned();
        let result = match parent {
            Some(parent) if request.session_id == state.session_id => {
                let record = BlockRecord {
                    number: parent.number + 1,
                    hash: child_hash(&parent.hash, &request.sequencer_block_hash),
                    parent_hash: parent.hash.clone(),
                    sequencer_block_hash: request.sequencer_block_hash.clone(),
                    in_session: true,
                };
                state.blocks.entry(record.hash.clone()).or_insert_with(|| record.clone());
                Some(record)
            }
            _ => None,
        };
        state.log.push(Rpc::Execute {
            parent_hash: request.parent_hash,
            sequencer_block_hash: request.sequencer_block_hash,
            transactions: request.transactions.len(),
            result: result.clone(),
        });
        match result {
            Some(record) => Ok(Response::new(raw::ExecuteBlockResponse {
                executed_block_metadata: Some(metadata(&record)),
            })),
            None => Err(Status::failed_precondition("unknown parent block or session")),
        }
    }

    async fn update_commitment_state(
        self: Arc<Self>,
        request: Request<raw::UpdateCommitmentStateRequest>,
    ) -> Result<Response<raw::CommitmentState>, Status> {
        let mut state = self.0.lock().unwrap();
        let request = request.into_inner();
        let session_ok = request.session_id == state.session_id;
        let Some(commitment) = request.commitment_state else {
            return Err(Status::invalid_argument("commitment state missing"));
        };
        let (Some(firm), Some(soft)) = (
            commitment.firm_executed_block_metadata.clone(),
            commitment.soft_executed_block_metadata.clone(),
        ) else {
            return Err(Status::invalid_argument("firm or soft missing"));
        };
        state.log.push(Rpc::Update {
            session_ok,
            firm_number: firm.number,
            firm_hash: firm.hash.clone(),
            soft_number: soft.number,
            soft_hash: soft.hash.clone(),
            lowest_celestia_search_height: commitment.lowest_celestia_search_height,
        });
        if !session_ok {
            return Err(Status::failed_precondition("unknown session"));
        }
        state.firm = firm;
        state.soft = soft;
        state.lowest_celestia_search_height = commitment.lowest_celestia_search_height;
        Ok(Response::new(commitment))
    }
}

async fn bind_loopback() -> tokio::net::TcpListener {
    let mut attempt = 0;
    loop {
        match tokio::net::TcpListener::bind("127.0.0.1:0").await {
            Ok(listener) => return listener,
            Err(error) if attempt < 100 => {
                // ephemeral ports exhausted by other processes: wait for the kernel (real time)
                attempt += 1;
                let _ = error;
                std::thread::sleep(std::time::Duration::from_millis(100));
            }
            Err(error) => panic!("cannot bind a loopback port: {error}"),
        }
    }
}

/// Binds an ephemeral loopback port and serves `rollup` on the current runtime. Returns the URL.
pub async fn serve(rollup: FakeRollup) -> String {
    let listener = bind_loopback().await;
    let address = listener.local_addr().expect("local address");
    // TCP_NODELAY as `Server::serve` would set it (otherwise every RPC waits for a delayed ACK);
    // SO_LINGER 0 so that the thousands of per-case connections do not pile up in TIME_WAIT and
    // exhaust the ephemeral ports
    let incoming = tokio_stream::StreamExt::map(
        tokio_stream::wrappers::TcpListenerStream::new(listener),
        |accepted| {
            accepted.inspect(|stream| {
                let _ = stream.set_nodelay(true);
                let _ = stream.set_linger(Some(std::time::Duration::ZERO));
            })
        },
    );
    tokio::spawn(async move {
        let _ = tonic::transport::Server::builder()
            .add_service(ExecutionServiceServer::new(rollup))
            .serve_with_incoming(incoming)
            .await;
    });
    format!("http://{address}")
}
