//! Independent RFC 6962 reference (same transcription as `vlight/src/c08.rs`): `MTH`, and audit
//! path verification for a `(leaf index, leaf count)` pair.

use sha2::{
    Digest as _,
    Sha256,
};

pub fn leaf(d: &[u8]) -> [u8; 32] {
    let mut h = Sha256::new();
    h.update([0x00]);
    h.update(d);
    h.finalize().into()
}

pub fn node(l: &[u8; 32], r: &[u8; 32]) -> [u8; 32] {
    let mut h = Sha256::new();
    h.update([0x01]);
    h.update(l);
    h.update(r);
    h.finalize().into()
}

/// largest power of two strictly smaller than `n` (n >= 2)
fn split(n: usize) -> usize {
    let mut k = 1;
    while k << 1 < n {
        k <<= 1;
    }
    k
}

pub fn mth(leaf_hashes: &[[u8; 32]]) -> [u8; 32] {
    match leaf_hashes.len() {
        0 => Sha256::digest(b"").into(),
        1 => leaf_hashes[0],
        n => {
            let k = split(n);
            node(&mth(&leaf_hashes[..k]), &mth(&leaf_hashes[k..]))
        }
    }
}

/// `MTH` of a list of leaf *contents*.
pub fn mth_of<T: AsRef<[u8]>>(leaves: &[T]) -> [u8; 32] {
    let hashes: Vec<[u8; 32]> = leaves.iter().map(|l| leaf(l.as_ref())).collect();
    mth(&hashes)
}

/// RFC 6962-bis (section 2.1.3.2) verification of an audit path for leaf `m` of `n` leaves.
pub fn verify(m: u64, n: u64, leaf_hash: [u8; 32], path: &[[u8; 32]], root: [u8; 32]) -> bool {
    if m >= n {
        return false;
    }
    let mut fn_ = m;
    let mut sn = n - 1;
    let mut r = leaf_hash;
    for p in path {
        if sn == 0 {
            return false;
        }
        if fn_ & 1 == 1 || fn_ == sn {
            r = node(p, &r);
            if fn_ & 1 == 0 {
                while fn_ & 1 == 0 && fn_ != 0 {
                    fn_ >>= 1;
                    sn >>= 1;
                }
            }
        } else {
            r = node(&r, p);
        }
        fn_ >>= 1;
        sn >>= 1;
    }
    sn == 0 && r == root
}

/// Verification of a proof in the wire shape `astria-merkle` uses: `tree_size` counts *nodes* of
/// the tree (`2 * leaves - 1`), the audit path is a flat byte string of 32 byte hashes.
pub fn verify_wire(
    leaf_index: u64,
    tree_size_nodes: u64,
    audit_path: &[u8],
    leaf_hash: [u8; 32],
    root: [u8; 32],
) -> bool {
    if audit_path.len() % 32 != 0 || tree_size_nodes % 2 == 0 {
        return false;
    }
    let leaves = tree_size_nodes / 2 + 1;
    let path: Vec<[u8; 32]> = audit_path
        .chunks(32)
        .map(|c| c.try_into().expect("chunks of 32"))
        .collect();
    verify(leaf_index, leaves, leaf_hash, &path, root)
}
