//! Checks on `astria-conductor` (through its `verif` feature): C09, C10 and the conductor part of
//! C17.

mod c09;
mod c10;
mod c17;
mod chain;
mod fake_rollup;
mod rfc6962;
mod wire;

fn main() {
    let (id, args) = vcommon::split_args();
    match id.as_str() {
        "C09" => c09::run(&args),
        "C10" => c10::run(&args),
        "C17" => c17::run(&args),
        other => {
            eprintln!("vconductor does not host property {other}");
            std::process::exit(2);
        }
    }
}
