//! Deterministic construction of honest Sequencer blocks (through `astria-core`'s own block
//! builder) and of the Celestia blobs relayer makes from them.

use astria_core::{
    crypto::SigningKey,
    generated::astria::sequencerblock::v1 as raw,
    primitive::v1::RollupId,
    protocol::test_utils::{
        ConfigureSequencerBlock,
        UnixTimeStamp,
    },
    sequencerblock::v1::{
        block,
        SequencerBlock,
    },
};
use celestia_types::{
    nmt::Namespace,
    Blob,
};
use sha2::{
    Digest as _,
    Sha256,
};

pub const CHAIN_ID: &str = "verif-chain-1";
pub const OTHER_CHAIN_ID: &str = "verif-chain-2";

/// The rollup conductor is configured for is `rollup_id(0)`.
pub fn rollup_id(i: u8) -> RollupId {
    RollupId::new([0x10 + i; 32])
}

pub fn key_seed(i: u8) -> [u8; 32] {
    let mut h = Sha256::new();
    h.update(b"verif-conductor-key");
    h.update([i]);
    h.finalize().into()
}

pub fn signing_key(i: u8) -> SigningKey {
    SigningKey::from(key_seed(i))
}

pub fn synthetic_hash(tag: &[u8], a: u64, b: u64) -> [u8; 32] {
    let mut h = Sha256::new();
    h.update(tag);
    h.update(a.to_le_bytes());
    h.update(b.to_le_bytes());
    h.finalize().into()
}

/// Builds a Sequencer block with `astria-core`'s builder: `data` are `(rollup, payload)` pairs in
/// transaction order.
pub fn make_block(
    chain_id: &str,
    height: u32,
    block_hash: [u8; 32],
    data: Vec<(RollupId, Vec<u8>)>,
) -> SequencerBlock {
    let key = signing_key(200);
    let public_key: tendermint::crypto::ed25519::VerificationKey = key
        .verification_key()
        .as_ref()
        .try_into()
        .expect("32 bytes");
    ConfigureSequencerBlock {
        block_hash: Some(block::Hash::new(block_hash)),
        chain_id: Some(chain_id.to_string()),
        height,
        proposer_address: Some(tendermint::account::Id::from(public_key)),
        signing_key: Some(key),
        sequence_data: data,
        deposits: vec![],
        unix_timestamp: UnixTimeStamp {
            secs: 1_700_000_000 + i64::from(height),
            nanos: 0,
        },
        use_data_items: true,
        with_aspen: false,
        with_extended_commit_info: false,
    }
    .make()
}

/// Encodes, brotli-compresses and wraps a protobuf message the way relayer's `Payload::try_add`
/// does.
pub fn relayer_blob<T: prost::Message>(namespace: Namespace, value: &T) -> Option<Blob> {
    let encoded = value.encode_to_vec();
    blob_from_uncompressed(namespace, &encoded)
}

pub fn blob_from_uncompressed(namespace: Namespace, encoded: &[u8]) -> Option<Blob> {
    let compressed = astria_core::brotli::compress_bytes(encoded).ok()?;
    blob_from_raw_bytes(namespace, compressed)
}

pub fn blob_from_raw_bytes(namespace: Namespace, data: Vec<u8>) -> Option<Blob> {
    Blob::new(namespace, data, celestia_types::AppVersion::V3).ok()
}

/// `split_for_celestia` in raw protobuf form.
pub fn split_raw(block: SequencerBlock) -> (raw::SubmittedMetadata, Vec<raw::SubmittedRollupData>) {
    let (metadata, rollup_data) = block.split_for_celestia();
    (
        metadata.into_raw(),
        rollup_data.into_iter().map(|r| r.into_raw()).collect(),
    )
}
