//! C09 — conductor accepts Celestia metadata only on > 2/3 of the voting power; rollup data only
//! with a valid Merkle proof; everything else is ignored without stopping.
//!
//! Driver: `astria_conductor::verif::Verifier::decode_verify_reconstruct` — the real
//! `decode_raw_blobs` -> `verify_metadata` (real `BlobVerifier` with its cache; the harness answers
//! at the `SequencerClient::commit` / `::validators` boundary) -> `reconstruct_blocks_from_verified_blobs`.
//!
//! Oracle: a reference predicate computed from the generated structure (which signatures are valid
//! is known by construction; powers are summed in 128 bit over *distinct* members) and an
//! independent RFC 6962 verifier for the rollup-data proofs.

use std::{
    collections::BTreeSet,
    sync::{
        atomic::{
            AtomicU64,
            Ordering,
        },
        Arc,
        Mutex,
    },
};

use astria_conductor::verif::{
    self,
    CommitLevel,
    ReconstructedBlockView,
    RollupState,
    Verifier,
};
use astria_core::{
    execution::v2::{
        CommitmentState,
        ExecutedBlockMetadata,
        ExecutionSession,
    },
    generated::astria::{
        execution::v2 as raw_exec,
        primitive::v1 as raw_primitive,
        sequencerblock::v1 as raw,
    },
    Protobuf as _,
};
use celestia_types::Blob;
use proptest::prelude::*;
use serde::{
    Deserialize,
    Serialize,
};
use tendermint::{
    account,
    block::{
        self,
        Commit,
        CommitSig,
    },
    validator,
    vote,
    Hash,
    Time,
};
use tendermint_rpc::endpoint::{
    commit,
    validators,
};
use vcommon::{
    gen::{
        pick_index,
        HexBytes,
    },
    vensure,
    vfail,
    CaseResult,
    Ctx,
    Prop,
    Session,
    Tier,
};

use crate::{
    chain::{
        self,
        CHAIN_ID,
        OTHER_CHAIN_ID,
    },
    rfc6962,
};

// ---------------------------------------------------------------------------------------------
// the abstract case
// ---------------------------------------------------------------------------------------------

#[derive(Clone, Copy, Debug, PartialEq, Eq, Serialize, Deserialize)]
pub enum Forgery {
    /// valid signature, but over another chain id
    WrongChainId,
    /// ... over height + 1
    WrongHeight,
    /// ... over round + 1
    WrongRound,
    /// ... over another block id
    WrongBlockId,
    /// ... over another timestamp than the one in the commit entry
    WrongTimestamp,
    /// signed by a key that is not in the validator set (entry names the member's address)
    NonMemberKey,
    /// signed by another member's key (entry names this member's address)
    OtherMemberKey,
    /// 64 arbitrary bytes
    Garbage,
    /// the signature field is empty
    Empty,
}

#[derive(Clone, Copy, Debug, PartialEq, Eq, Serialize, Deserialize)]
pub enum VoteSpec {
    Absent,
    /// a validly signed vote for nil
    Nil,
    /// a validly signed precommit for the block
    Valid,
    Forged(Forgery),
}

#[derive(Clone, Copy, Debug, PartialEq, Eq, Serialize, Deserialize)]
pub enum Boundary {
    /// use `votes` as generated
    AsGiven,
    /// signers = the subset with the largest power that is still NOT more than 2/3
    JustBelow,
    /// signers = the subset with the smallest power that is more than 2/3
    JustAbove,
}

#[derive(Clone, Copy, Debug, PartialEq, Eq, Serialize, Deserialize)]
pub enum Extra {
    /// `times` additional, validly signed commit entries of validator `of`
    Duplicate { of: u16, times: u8 },
    /// a validly signed entry of a key that is not in the validator set
    NonMember { nil: bool },
}

#[derive(Clone, Copy, Debug, PartialEq, Eq, Serialize, Deserialize)]
pub enum Serve {
    Ok,
    /// `/commit` always fails for this height
    FailCommit,
    /// `/validators` always fails for this height
    FailValidators,
    /// the first `n` requests for this height fail
    FailFirst(u8),
}

#[derive(Clone, Debug, Serialize, Deserialize)]
pub struct HeightSpec {
    /// payloads of the rollup conductor follows (`None`: the rollup has no data in this block)
    ours: Option<Vec<HexBytes>>,
    /// number of other rollups with data in this block
    others: u8,
    round: u8,
    votes: Vec<VoteSpec>,
    boundary: Boundary,
    extras: Vec<Extra>,
    serve: Serve,
}

#[derive(Clone, Copy, Debug, PartialEq, Eq, Serialize, Deserialize)]
pub enum Wrap {
    /// brotli-compressed protobuf in the expected namespace, like relayer
    Relayer,
    /// like relayer, but in a foreign namespace
    OtherNamespace,
    /// protobuf without compression
    NotCompressed,
    /// compressed bytes cut off after this fraction (x / 65536)
    Truncated(u16),
}

#[derive(Clone, Copy, Debug, PartialEq, Eq, Serialize, Deserialize)]
pub enum MetaKind {
    Honest,
    /// one byte of the block hash changed
    WrongBlockHash(u8),
    /// block hash of another generated height
    HashOfOtherHeight(u16),
    WrongChainId,
    /// the header claims another height (the selector picks it from 0..=heights+1)
    WrongHeight(u16),
    /// same block hash, chain id and height, but other block content (own consistent proofs)
    ForgedContent,
    /// the rollup transactions proof does not lead to the data hash (item is malformed)
    BrokenProof,
    /// the header field is missing (item is malformed)
    MissingHeader,
}

#[derive(Clone, Copy, Debug, PartialEq, Eq, Serialize, Deserialize)]
pub struct MetaItem {
    height: u16,
    kind: MetaKind,
}

#[derive(Clone, Debug, Serialize, Deserialize)]
pub enum MetaBlob {
    List(Vec<MetaItem>, Wrap),
    Garbage(HexBytes, bool),
    /// the previous metadata blob of this Celestia height once more
    RepeatPrevious,
    /// a metadata blob of an earlier Celestia height once more
    ReplayEarlier(u16),
}

#[derive(Clone, Copy, Debug, PartialEq, Eq, Serialize, Deserialize)]
pub enum RollupKind {
    Honest,
    WrongBlockHash(u8),
    /// this block's hash, but data and proof of our rollup in another block
    DataOfOtherBlock(u16),
    /// another rollup's id, data and proof of the same block (posted in our namespace)
    OtherRollupComplete(u16),
    /// our id and data with another rollup's proof
    OtherRollupProof(u16),
    /// our data and proof under another rollup's id
    OtherRollupId(u16),
    /// audit path without its last element
    TruncatedPath,
    /// audit path with this many extra elements
    OverlongPath(u8),
    /// audit path with a ragged tail of this many bytes
    RaggedPath(u8),
    TamperedTx(u16),
    ExtraTx,
    DroppedTx,
    NoTxs,
    /// the proof field is missing (item is malformed)
    MissingProof,
    /// the rollup id has 31 bytes (item is malformed)
    ShortRollupId,
    /// our rollup's data of the forged block (see `MetaKind::ForgedContent`)
    ForgedContent,
}

#[derive(Clone, Copy, Debug, PartialEq, Eq, Serialize, Deserialize)]
pub struct RollupItem {
    height: u16,
    kind: RollupKind,
}

#[derive(Clone, Debug, Serialize, Deserialize)]
pub enum RollupBlob {
    List(Vec<RollupItem>, Wrap),
    Garbage(HexBytes, bool),
    RepeatPrevious,
}

#[derive(Clone, Debug, Serialize, Deserialize)]
pub struct CelestiaSpec {
    /// rollup firm block number reported before this Celestia height is processed (clamped to be
    /// monotone); the next expected firm Sequencer height is this + 1
    firm_number: u8,
    metadata: Vec<MetaBlob>,
    rollup: Vec<RollupBlob>,
}

#[derive(Clone, Debug, Serialize, Deserialize)]
pub struct Case {
    powers: Vec<u64>,
    heights: Vec<HeightSpec>,
    celestia: Vec<CelestiaSpec>,
}

// ---------------------------------------------------------------------------------------------
// generator
// ---------------------------------------------------------------------------------------------

fn power() -> impl Strategy<Value = u64> {
    prop_oneof![
        10 => 1_u64..=3,
        6 => 1_u64..=12,
        1 => Just(1_u64 << 31),
        1 => (0_u64..3).prop_map(|d| (1 << 31) + d),
        1 => (0_u64..3).prop_map(|d| (1 << 59) - 1 + d),
        1 => Just(1_u64 << 62),
    ]
}

fn powers() -> impl Strategy<Value = Vec<u64>> {
    prop_oneof![
        // equal small powers: every `total mod 3` with every subset size
        4 => (1_usize..=7, 1_u64..=3).prop_map(|(n, p)| vec![p; n]),
        6 => proptest::collection::vec(power(), 1..=7),
    ]
}

fn forgery() -> impl Strategy<Value = Forgery> {
    prop_oneof![
        Just(Forgery::WrongChainId),
        Just(Forgery::WrongHeight),
        Just(Forgery::WrongRound),
        Just(Forgery::WrongBlockId),
        Just(Forgery::WrongTimestamp),
        Just(Forgery::NonMemberKey),
        Just(Forgery::OtherMemberKey),
        Just(Forgery::Garbage),
        Just(Forgery::Empty),
    ]
}

fn vote_spec() -> impl Strategy<Value = VoteSpec> {
    prop_oneof![
        64 => Just(VoteSpec::Valid),
        20 => Just(VoteSpec::Absent),
        8 => Just(VoteSpec::Nil),
        4 => forgery().prop_map(VoteSpec::Forged),
    ]
}

fn extra() -> impl Strategy<Value = Extra> {
    prop_oneof![
        4 => (any::<u16>(), 1_u8..=3).prop_map(|(of, times)| Extra::Duplicate { of, times }),
        1 => any::<bool>().prop_map(|nil| Extra::NonMember { nil }),
    ]
}

fn payloads() -> impl Strategy<Value = Vec<HexBytes>> {
    proptest::collection::vec(
        proptest::collection::vec(any::<u8>(), 0..6).prop_map(HexBytes),
        1..=3,
    )
}

fn height_spec() -> impl Strategy<Value = HeightSpec> {
    (
        prop_oneof![3 => payloads().prop_map(Some), 1 => Just(None)],
        0_u8..=2,
        0_u8..=2,
        proptest::collection::vec(vote_spec(), 7),
        prop_oneof![
            5 => Just(Boundary::AsGiven),
            3 => Just(Boundary::JustBelow),
            2 => Just(Boundary::JustAbove),
        ],
        prop_oneof![
            6 => Just(Vec::new()),
            3 => proptest::collection::vec(extra(), 1..=2),
        ],
        prop_oneof![
            16 => Just(Serve::Ok),
            1 => Just(Serve::FailCommit),
            1 => Just(Serve::FailValidators),
            2 => (1_u8..=3).prop_map(Serve::FailFirst),
        ],
    )
        .prop_map(|(ours, others, round, votes, boundary, extras, serve)| HeightSpec {
            ours,
            others,
            round,
            votes,
            boundary,
            extras,
            serve,
        })
}

fn wrap() -> impl Strategy<Value = Wrap> {
    prop_oneof![
        14 => Just(Wrap::Relayer),
        1 => Just(Wrap::OtherNamespace),
        1 => Just(Wrap::NotCompressed),
        1 => any::<u16>().prop_map(Wrap::Truncated),
    ]
}

fn meta_kind() -> impl Strategy<Value = MetaKind> {
    prop_oneof![
        10 => Just(MetaKind::Honest),
        2 => any::<u8>().prop_map(MetaKind::WrongBlockHash),
        1 => any::<u16>().prop_map(MetaKind::HashOfOtherHeight),
        2 => Just(MetaKind::WrongChainId),
        2 => any::<u16>().prop_map(MetaKind::WrongHeight),
        2 => Just(MetaKind::ForgedContent),
        1 => prop_oneof![Just(MetaKind::BrokenProof), Just(MetaKind::MissingHeader)],
    ]
}

fn meta_blob() -> impl Strategy<Value = MetaBlob> {
    let item = (any::<u16>(), meta_kind()).prop_map(|(height, kind)| MetaItem {
        height,
        kind,
    });
    prop_oneof![
        12 => (proptest::collection::vec(item, 1..=3), wrap()).prop_map(|(i, w)| MetaBlob::List(i, w)),
        1 => (proptest::collection::vec(any::<u8>(), 0..40), any::<bool>())
            .prop_map(|(b, c)| MetaBlob::Garbage(HexBytes(b), c)),
        1 => Just(MetaBlob::RepeatPrevious),
        1 => any::<u16>().prop_map(MetaBlob::ReplayEarlier),
    ]
}

fn rollup_kind() -> impl Strategy<Value = RollupKind> {
    prop_oneof![
        12 => Just(RollupKind::Honest),
        1 => any::<u8>().prop_map(RollupKind::WrongBlockHash),
        1 => any::<u16>().prop_map(RollupKind::DataOfOtherBlock),
        2 => any::<u16>().prop_map(RollupKind::OtherRollupComplete),
        1 => any::<u16>().prop_map(RollupKind::OtherRollupProof),
        1 => any::<u16>().prop_map(RollupKind::OtherRollupId),
        1 => Just(RollupKind::TruncatedPath),
        1 => (1_u8..=3).prop_map(RollupKind::OverlongPath),
        1 => (1_u8..32).prop_map(RollupKind::RaggedPath),
        1 => any::<u16>().prop_map(RollupKind::TamperedTx),
        1 => Just(RollupKind::ExtraTx),
        1 => Just(RollupKind::DroppedTx),
        1 => Just(RollupKind::NoTxs),
        1 => Just(RollupKind::MissingProof),
        1 => Just(RollupKind::ShortRollupId),
        3 => Just(RollupKind::ForgedContent),
    ]
}

fn rollup_blob() -> impl Strategy<Value = RollupBlob> {
    let item = (any::<u16>(), rollup_kind()).prop_map(|(height, kind)| RollupItem {
        height,
        kind,
    });
    prop_oneof![
        12 => (proptest::collection::vec(item, 1..=2), wrap()).prop_map(|(i, w)| RollupBlob::List(i, w)),
        1 => (proptest::collection::vec(any::<u8>(), 0..40), any::<bool>())
            .prop_map(|(b, c)| RollupBlob::Garbage(HexBytes(b), c)),
        1 => Just(RollupBlob::RepeatPrevious),
    ]
}

fn celestia_spec() -> impl Strategy<Value = CelestiaSpec> {
    (
        prop_oneof![4 => Just(0_u8), 1 => 0_u8..=3],
        proptest::collection::vec(meta_blob(), 0..=4),
        proptest::collection::vec(rollup_blob(), 0..=6),
    )
        .prop_map(|(firm_number, metadata, rollup)| CelestiaSpec {
            firm_number,
            metadata,
            rollup,
        })
}

fn case(_tier: Tier) -> BoxedStrategy<Case> {
    (
        powers(),
        proptest::collection::vec(height_spec(), 1..=3),
        proptest::collection::vec(celestia_spec(), 1..=3),
    )
        .prop_map(|(powers, heights, celestia)| Case {
            powers,
            heights,
            celestia,
        })
        .boxed()
}

// ---------------------------------------------------------------------------------------------
// the world built from a case
// ---------------------------------------------------------------------------------------------

const NON_MEMBER_KEY: u8 = 100;

struct Member {
    key: astria_core::crypto::SigningKey,
    info: validator::Info,
    power: u64,
}

struct HeightWorld {
    height: u64,
    block_hash: [u8; 32],
    /// honest block split for celestia
    metadata: raw::SubmittedMetadata,
    rollup_data: Vec<raw::SubmittedRollupData>,
    /// different content under the same hash / height / chain id
    forged_metadata: raw::SubmittedMetadata,
    forged_rollup_data: Vec<raw::SubmittedRollupData>,
    commit: commit::Response,
    validators: validators::Response,
    serve: Serve,
    requests: Mutex<u32>,
    // reference facts
    total_power: u128,
    /// power of distinct members with at least one valid commit signature
    distinct_signed_power: u128,
    /// power summed over every valid commit signature entry (duplicates counted)
    entries_signed_power: u128,
    /// flipping one validator's vote would change the reference verdict
    at_boundary: bool,
    /// every entry of the commit is one the strictest verifier accepts
    all_entries_clean: bool,
    /// no entry is forged or from a non-member: only the power sum decides
    power_decides: bool,
}

impl HeightWorld {
    fn has_quorum(&self) -> bool {
        3 * self.distinct_signed_power > 2 * self.total_power
    }

    fn commit_available(&self) -> bool {
        !matches!(self.serve, Serve::FailCommit | Serve::FailValidators)
    }
}

struct World {
    heights: Vec<HeightWorld>,
}

fn ed25519_public_key(key: &astria_core::crypto::SigningKey) -> tendermint::PublicKey {
    tendermint::PublicKey::from_raw_ed25519(key.verification_key().as_ref()).expect("32 byte key")
}

fn vote_time(height: u64, validator: usize, salt: i64) -> Time {
    Time::from_unix_timestamp(
        1_700_000_100 + height as i64 * 10 + salt,
        (validator as u32) * 1000,
    )
    .expect("valid time")
}

#[allow(clippy::too_many_arguments)]
fn sign_vote(
    key: &astria_core::crypto::SigningKey,
    chain_id: &str,
    height: u64,
    round: u16,
    block_id: Option<block::Id>,
    timestamp: Time,
    validator_address: account::Id,
) -> tendermint::Signature {
    let vote = vote::Vote {
        vote_type: vote::Type::Precommit,
        height: block::Height::try_from(height).expect("small height"),
        round: block::Round::from(round),
        block_id,
        timestamp: Some(timestamp),
        validator_address,
        validator_index: vote::ValidatorIndex::try_from(0_u32).expect("0 is a valid index"),
        signature: None,
        extension: vec![],
        extension_signature: None,
    };
    let bytes = vote.into_signable_vec(chain_id.parse().expect("valid chain id"));
    tendermint::Signature::try_from(key.sign(&bytes).to_bytes().as_slice()).expect("64 bytes")
}

fn sha_hash(tag: &[u8], a: u64) -> Hash {
    Hash::Sha256(chain::synthetic_hash(tag, a, 0))
}

/// Chooses the signer subset for the boundary modes (brute force over at most 2^7 subsets).
fn boundary_subset(powers: &[u64], boundary: Boundary) -> Option<u32> {
    let total: u128 = powers.iter().map(|p| u128::from(*p)).sum();
    let mut best: Option<(u128, u32)> = None;
    for mask in 0_u32..(1 << powers.len()) {
        let sum: u128 = powers
            .iter()
            .enumerate()
            .filter(|(i, _)| mask & (1 << i) != 0)
            .map(|(_, p)| u128::from(*p))
            .sum();
        let above = 3 * sum > 2 * total;
        match boundary {
            Boundary::AsGiven => return None,
            Boundary::JustBelow if !above => {
                if best.is_none_or(|(b, _)| sum > b) {
                    best = Some((sum, mask));
                }
            }
            Boundary::JustAbove if above => {
                if best.is_none_or(|(b, _)| sum < b) {
                    best = Some((sum, mask));
                }
            }
            _ => {}
        }
    }
    best.map(|(_, mask)| mask)
}

fn other_payloads(height: u64, rollup: u8) -> Vec<Vec<u8>> {
    (0..=(rollup % 2))
        .map(|k| vec![0xA0 + rollup, height as u8, k])
        .collect()
}

fn block_data(spec: &HeightSpec, height: u64, forged: bool) -> Vec<(astria_core::primitive::v1::RollupId, Vec<u8>)> {
    let mut data = Vec::new();
    // interleave so that grouping by rollup is exercised
    for other in 1..=spec.others {
        for payload in other_payloads(height, other) {
            data.push((chain::rollup_id(other), payload));
        }
    }
    if let Some(ours) = &spec.ours {
        for payload in ours {
            let mut payload = payload.0.clone();
            if forged {
                payload.push(0xFF);
            }
            data.push((chain::rollup_id(0), payload));
        }
    } else if forged {
        data.push((chain::rollup_id(0), b"forged".to_vec()));
    }
    data
}

fn build_world(case: &Case) -> World {
    let members: Vec<Member> = case
        .powers
        .iter()
        .take(7)
        .enumerate()
        .map(|(i, power)| {
            let key = chain::signing_key(i as u8);
            let info = validator::Info::new(
                ed25519_public_key(&key),
                vote::Power::try_from(*power).expect("generated powers fit i64"),
            );
            Member {
                key,
                info,
                power: *power,
            }
        })
        .collect();
    let non_member = chain::signing_key(NON_MEMBER_KEY);
    let non_member_address = account::Id::from(ed25519_public_key(&non_member));
    let total_power: u128 = members.iter().map(|m| u128::from(m.power)).sum();
    let powers: Vec<u64> = members.iter().map(|m| m.power).collect();

    let mut heights = Vec::new();
    for (idx, spec) in case.heights.iter().take(3).enumerate() {
        let height = idx as u64 + 1;
        // the honest block: first with a placeholder hash to learn its data hash, then the header
        let probe = chain::make_block(CHAIN_ID, height as u32, [0; 32], block_data(spec, height, false));
        let header = block::Header {
            version: block::header::Version {
                block: 11,
                app: 0,
            },
            chain_id: CHAIN_ID.parse().expect("valid chain id"),
            height: block::Height::try_from(height).expect("small height"),
            time: probe.header().time(),
            last_block_id: (height > 1).then(|| block::Id {
                hash: sha_hash(b"last-block", height),
                part_set_header: block::parts::Header::new(1, sha_hash(b"last-parts", height))
                    .expect("valid part set header"),
            }),
            last_commit_hash: Some(sha_hash(b"last-commit", height)),
            data_hash: Some(Hash::Sha256(*probe.header().data_hash())),
            validators_hash: sha_hash(b"validators", total_power as u64),
            next_validators_hash: sha_hash(b"validators", total_power as u64),
            consensus_hash: sha_hash(b"consensus", 0),
            app_hash: tendermint::AppHash::try_from(chain::synthetic_hash(b"app", height, 0).to_vec())
                .expect("app hash"),
            last_results_hash: None,
            evidence_hash: None,
            proposer_address: members[0].info.address,
        };
        let Hash::Sha256(block_hash) = header.hash() else {
            unreachable!("header hash is sha256")
        };
        let block_id = block::Id {
            hash: Hash::Sha256(block_hash),
            part_set_header: block::parts::Header::new(1, sha_hash(b"parts", height))
                .expect("valid part set header"),
        };
        let other_block_id = block::Id {
            hash: sha_hash(b"other-block", height),
            part_set_header: block_id.part_set_header,
        };
        let honest = chain::make_block(CHAIN_ID, height as u32, block_hash, block_data(spec, height, false));
        let forged = chain::make_block(CHAIN_ID, height as u32, block_hash, block_data(spec, height, true));
        let (metadata, rollup_data) = chain::split_raw(honest);
        let (forged_metadata, forged_rollup_data) = chain::split_raw(forged);

        // votes
        let round = u16::from(spec.round);
        let mut votes: Vec<VoteSpec> = (0..members.len())
            .map(|i| spec.votes.get(i).copied().unwrap_or(VoteSpec::Absent))
            .collect();
        if let Some(mask) = boundary_subset(&powers, spec.boundary) {
            for (i, vote) in votes.iter_mut().enumerate() {
                if mask & (1 << i) != 0 {
                    *vote = VoteSpec::Valid;
                } else if !matches!(vote, VoteSpec::Nil) {
                    *vote = VoteSpec::Absent;
                }
            }
        }
        let mut signatures = Vec::new();
        let mut valid_signers: BTreeSet<usize> = BTreeSet::new();
        let mut entries_signed_power = 0_u128;
        let mut all_entries_clean = true;
        let mut power_decides = true;
        for (i, vote) in votes.iter().enumerate() {
            let member = &members[i];
            let address = member.info.address;
            let timestamp = vote_time(height, i, 0);
            let entry = match vote {
                VoteSpec::Absent => CommitSig::BlockIdFlagAbsent,
                VoteSpec::Nil => CommitSig::BlockIdFlagNil {
                    validator_address: address,
                    timestamp,
                    signature: Some(sign_vote(&member.key, CHAIN_ID, height, round, None, timestamp, address)),
                },
                VoteSpec::Valid => {
                    valid_signers.insert(i);
                    entries_signed_power += u128::from(member.power);
                    CommitSig::BlockIdFlagCommit {
                        validator_address: address,
                        timestamp,
                        signature: Some(sign_vote(
                            &member.key,
                            CHAIN_ID,
                            height,
                            round,
                            Some(block_id),
                            timestamp,
                            address,
                        )),
                    }
                }
                VoteSpec::Forged(forgery) => {
                    all_entries_clean = false;
                    power_decides = false;
                    let other_member = &members[(i + 1) % members.len()];
                    let signature = match forgery {
                        Forgery::WrongChainId => Some(sign_vote(
                            &member.key, OTHER_CHAIN_ID, height, round, Some(block_id), timestamp, address,
                        )),
                        Forgery::WrongHeight => Some(sign_vote(
                            &member.key, CHAIN_ID, height + 1, round, Some(block_id), timestamp, address,
                        )),
                        Forgery::WrongRound => Some(sign_vote(
                            &member.key, CHAIN_ID, height, round + 1, Some(block_id), timestamp, address,
                        )),
                        Forgery::WrongBlockId => Some(sign_vote(
                            &member.key, CHAIN_ID, height, round, Some(other_block_id), timestamp, address,
                        )),
                        Forgery::WrongTimestamp => Some(sign_vote(
                            &member.key,
                            CHAIN_ID,
                            height,
                            round,
                            Some(block_id),
                            vote_time(height, i, 1),
                            address,
                        )),
                        Forgery::NonMemberKey => Some(sign_vote(
                            &non_member, CHAIN_ID, height, round, Some(block_id), timestamp, address,
                        )),
                        Forgery::OtherMemberKey => {
                            if members.len() == 1 {
                                // there is no other member: fall back to a non-member key
                                Some(sign_vote(
                                    &non_member, CHAIN_ID, height, round, Some(block_id), timestamp, address,
                                ))
                            } else {
                                Some(sign_vote(
                                    &other_member.key,
                                    CHAIN_ID,
                                    height,
                                    round,
                                    Some(block_id),
                                    timestamp,
                                    address,
                                ))
                            }
                        }
                        Forgery::Garbage => Some(
                            tendermint::Signature::try_from(
                                [chain::synthetic_hash(b"garbage-sig", height, i as u64); 2].concat().as_slice(),
                            )
                            .expect("64 bytes"),
                        ),
                        Forgery::Empty => None,
                    };
                    CommitSig::BlockIdFlagCommit {
                        validator_address: address,
                        timestamp,
                        signature,
                    }
                }
            };
            signatures.push(entry);
        }
        for extra in spec.extras.iter().take(2) {
            match *extra {
                Extra::Duplicate {
                    of,
                    times,
                } => {
                    let i = pick_index(of, members.len());
                    let member = &members[i];
                    let address = member.info.address;
                    // an attacker can only repeat a signature that exists: if the validator has a
                    // valid entry that one is repeated, otherwise the validator itself signed
                    // several times
                    for k in 0..times.min(3) {
                        let timestamp = if votes[i] == VoteSpec::Valid {
                            vote_time(height, i, 0)
                        } else {
                            vote_time(height, i, 2 + i64::from(k))
                        };
                        valid_signers.insert(i);
                        entries_signed_power += u128::from(member.power);
                        all_entries_clean = false;
                        signatures.push(CommitSig::BlockIdFlagCommit {
                            validator_address: address,
                            timestamp,
                            signature: Some(sign_vote(
                                &member.key,
                                CHAIN_ID,
                                height,
                                round,
                                Some(block_id),
                                timestamp,
                                address,
                            )),
                        });
                    }
                }
                Extra::NonMember {
                    nil,
                } => {
                    all_entries_clean = false;
                    power_decides &= nil;
                    let timestamp = vote_time(height, 9, 0);
                    let id = (!nil).then_some(block_id);
                    let signature =
                        Some(sign_vote(&non_member, CHAIN_ID, height, round, id, timestamp, non_member_address));
                    signatures.push(if nil {
                        CommitSig::BlockIdFlagNil {
                            validator_address: non_member_address,
                            timestamp,
                            signature,
                        }
                    } else {
                        CommitSig::BlockIdFlagCommit {
                            validator_address: non_member_address,
                            timestamp,
                            signature,
                        }
                    });
                }
            }
        }
        let distinct_signed_power: u128 = valid_signers.iter().map(|i| u128::from(members[*i].power)).sum();
        // "within one unit of the threshold": toggling one validator flips the verdict
        let quorum = 3 * distinct_signed_power > 2 * total_power;
        let at_boundary = (0..members.len()).any(|i| {
            let p = u128::from(members[i].power);
            let toggled = if valid_signers.contains(&i) {
                distinct_signed_power - p
            } else {
                distinct_signed_power + p
            };
            (3 * toggled > 2 * total_power) != quorum
        });

        let commit = Commit {
            height: header.height,
            round: block::Round::from(round),
            block_id,
            signatures,
        };
        let mut signed_header = block::signed_header::SignedHeader::new(header.clone(), commit)
            .expect("header and commit heights are equal");
        // keep the compiler honest about mutability of the public fields
        signed_header.header.chain_id = header.chain_id.clone();
        let commit = commit::Response {
            signed_header,
            canonical: true,
        };
        let validators = validators::Response::new(
            header.height,
            members.iter().map(|m| m.info.clone()).collect(),
            members.len() as i32,
        );
        heights.push(HeightWorld {
            height,
            block_hash,
            metadata,
            rollup_data,
            forged_metadata,
            forged_rollup_data,
            commit,
            validators,
            serve: spec.serve,
            requests: Mutex::new(0),
            total_power,
            distinct_signed_power,
            entries_signed_power,
            at_boundary,
            all_entries_clean,
            power_decides,
        });
    }
    World {
        heights,
    }
}

impl World {
    fn height(&self, height: u64) -> Option<&HeightWorld> {
        height
            .checked_sub(1)
            .and_then(|i| self.heights.get(i as usize))
    }

    fn should_fail(&self, world: &HeightWorld, commit: bool) -> bool {
        let mut requests = world.requests.lock().unwrap();
        *requests += 1;
        match world.serve {
            Serve::Ok => false,
            Serve::FailCommit => commit,
            Serve::FailValidators => !commit,
            Serve::FailFirst(n) => *requests <= u32::from(n),
        }
    }

    fn serve_commit(&self, height: block::Height) -> Result<commit::Response, tendermint_rpc::Error> {
        let Some(world) = self.height(height.value()) else {
            return Err(tendermint_rpc::Error::server(format!("no commit for height {height}")));
        };
        if self.should_fail(world, true) {
            return Err(tendermint_rpc::Error::server("generated failure".to_string()));
        }
        Ok(world.commit.clone())
    }

    fn serve_validators(
        &self,
        height: block::Height,
    ) -> Result<validators::Response, tendermint_rpc::Error> {
        let Some(world) = self.height(height.value()) else {
            return Err(tendermint_rpc::Error::server(format!("no validators for height {height}")));
        };
        if self.should_fail(world, false) {
            return Err(tendermint_rpc::Error::server("generated failure".to_string()));
        }
        Ok(world.validators.clone())
    }
}

// ---------------------------------------------------------------------------------------------
// blobs
// ---------------------------------------------------------------------------------------------

fn variant_name(value: &impl std::fmt::Debug) -> String {
    let text = format!("{value:?}");
    text.split(['(', ' ', '{']).next().unwrap_or_default().to_string()
}

fn flip(hash: &[u8], salt: u8) -> Vec<u8> {
    let mut out = hash.to_vec();
    if !out.is_empty() {
        let pos = (salt as usize) % out.len();
        out[pos] ^= 1 << (salt % 8);
    }
    out
}

fn meta_item(world: &World, item: &MetaItem, ctx: &mut Ctx) -> raw::SubmittedMetadata {
    let n = world.heights.len();
    let source = &world.heights[pick_index(item.height, n)];
    let mut raw = source.metadata.clone();
    match item.kind {
        MetaKind::Honest => {}
        MetaKind::WrongBlockHash(salt) => raw.block_hash = flip(&raw.block_hash, salt).into(),
        MetaKind::HashOfOtherHeight(sel) => {
            let other = &world.heights[pick_index(sel, n)];
            if other.height == source.height {
                ctx.label("noop:hash-of-same-height");
            }
            raw.block_hash = other.block_hash.to_vec().into();
        }
        MetaKind::WrongChainId => {
            if let Some(header) = raw.header.as_mut() {
                header.chain_id = OTHER_CHAIN_ID.to_string();
            }
        }
        MetaKind::WrongHeight(sel) => {
            // 0 ..= n + 1: includes height zero, the same height and a height without commit
            let claimed = pick_index(sel, n + 2) as u64;
            if let Some(header) = raw.header.as_mut() {
                header.height = claimed;
            }
        }
        MetaKind::ForgedContent => raw = source.forged_metadata.clone(),
        MetaKind::BrokenProof => {
            if let Some(proof) = raw.rollup_transactions_proof.as_mut() {
                let mut path = proof.audit_path.to_vec();
                match path.first_mut() {
                    Some(byte) => *byte ^= 1,
                    None => path.extend_from_slice(&[7; 32]),
                }
                proof.audit_path = path.into();
            }
        }
        MetaKind::MissingHeader => raw.header = None,
    }
    raw
}

fn fabricated_rollup_item(source: &HeightWorld) -> raw::SubmittedRollupData {
    // our rollup has no data in this block: an adversary claims it does, borrowing a proof
    let proof = source
        .rollup_data
        .first()
        .and_then(|r| r.proof.clone())
        .unwrap_or_else(|| {
            astria_merkle::Tree::from_leaves([b"x"])
                .construct_proof(0)
                .expect("leaf 0 exists")
                .into_raw()
        });
    raw::SubmittedRollupData {
        sequencer_block_hash: source.block_hash.to_vec().into(),
        rollup_id: Some(chain::rollup_id(0).into_raw()),
        transactions: vec![b"fabricated".to_vec().into()],
        proof: Some(proof),
    }
}

fn find_rollup(list: &[raw::SubmittedRollupData], rollup: u8) -> Option<&raw::SubmittedRollupData> {
    let id = chain::rollup_id(rollup).into_raw();
    list.iter().find(|r| r.rollup_id.as_ref() == Some(&id))
}

fn rollup_item(world: &World, item: &RollupItem, ctx: &mut Ctx) -> raw::SubmittedRollupData {
    let n = world.heights.len();
    let source = &world.heights[pick_index(item.height, n)];
    if item.kind == RollupKind::ForgedContent {
        // the forged block always has data for our rollup
        return find_rollup(&source.forged_rollup_data, 0)
            .cloned()
            .expect("forged block has data for rollup 0");
    }
    let Some(ours) = find_rollup(&source.rollup_data, 0).cloned() else {
        ctx.label("rollup-item:fabricated-inclusion");
        return fabricated_rollup_item(source);
    };
    let others: Vec<&raw::SubmittedRollupData> = source
        .rollup_data
        .iter()
        .filter(|r| r.rollup_id != ours.rollup_id)
        .collect();
    let mut raw = ours.clone();
    match item.kind {
        RollupKind::Honest | RollupKind::ForgedContent => {}
        RollupKind::WrongBlockHash(salt) => {
            raw.sequencer_block_hash = flip(&raw.sequencer_block_hash, salt).into();
        }
        RollupKind::DataOfOtherBlock(sel) => {
            let other = &world.heights[pick_index(sel, n)];
            match find_rollup(&other.rollup_data, 0) {
                Some(theirs) if other.height != source.height => {
                    raw = theirs.clone();
                    raw.sequencer_block_hash = source.block_hash.to_vec().into();
                }
                _ => ctx.label("noop:no-other-block-data"),
            }
        }
        RollupKind::OtherRollupComplete(sel) => match others.get(pick_index(sel, others.len())) {
            Some(other) if !others.is_empty() => raw = (*other).clone(),
            _ => ctx.label("noop:no-other-rollup"),
        },
        RollupKind::OtherRollupProof(sel) => match others.get(pick_index(sel, others.len())) {
            Some(other) if !others.is_empty() => raw.proof.clone_from(&other.proof),
            _ => ctx.label("noop:no-other-rollup"),
        },
        RollupKind::OtherRollupId(sel) => match others.get(pick_index(sel, others.len())) {
            Some(other) if !others.is_empty() => raw.rollup_id.clone_from(&other.rollup_id),
            _ => ctx.label("noop:no-other-rollup"),
        },
        RollupKind::TruncatedPath => {
            if let Some(proof) = raw.proof.as_mut() {
                let len = proof.audit_path.len();
                if len >= 32 {
                    proof.audit_path = proof.audit_path.slice(..len - 32);
                } else {
                    ctx.label("noop:empty-path");
                }
            }
        }
        RollupKind::OverlongPath(extra) => {
            if let Some(proof) = raw.proof.as_mut() {
                let mut path = proof.audit_path.to_vec();
                for k in 0..extra {
                    path.extend_from_slice(&chain::synthetic_hash(b"extra-path", u64::from(k), 0));
                }
                proof.audit_path = path.into();
            }
        }
        RollupKind::RaggedPath(extra) => {
            if let Some(proof) = raw.proof.as_mut() {
                let mut path = proof.audit_path.to_vec();
                path.extend(std::iter::repeat(9).take(extra as usize));
                proof.audit_path = path.into();
            }
        }
        RollupKind::TamperedTx(sel) => {
            let idx = pick_index(sel, raw.transactions.len());
            if let Some(tx) = raw.transactions.get_mut(idx) {
                let mut bytes = tx.to_vec();
                bytes.push(0x55);
                *tx = bytes.into();
            }
        }
        RollupKind::ExtraTx => raw.transactions.push(b"extra".to_vec().into()),
        RollupKind::DroppedTx => {
            raw.transactions.pop();
        }
        RollupKind::NoTxs => raw.transactions.clear(),
        RollupKind::MissingProof => raw.proof = None,
        RollupKind::ShortRollupId => {
            raw.rollup_id = Some(raw_primitive::RollupId {
                inner: vec![1; 31].into(),
            });
        }
    }
    raw
}

fn rollup_list_well_formed(items: &[RollupItem], wrap: Wrap) -> bool {
    wrap == Wrap::Relayer
        && !items.iter().take(2).any(|i| {
            matches!(
                i.kind,
                RollupKind::MissingProof | RollupKind::ShortRollupId | RollupKind::RaggedPath(_)
            )
        })
}

fn wrap_bytes(
    encoded: Vec<u8>,
    wrap: Wrap,
    namespace: celestia_types::nmt::Namespace,
    foreign: celestia_types::nmt::Namespace,
) -> Option<Blob> {
    match wrap {
        Wrap::Relayer => chain::blob_from_uncompressed(namespace, &encoded),
        Wrap::OtherNamespace => chain::blob_from_uncompressed(foreign, &encoded),
        Wrap::NotCompressed => chain::blob_from_raw_bytes(namespace, encoded),
        Wrap::Truncated(fraction) => {
            let compressed = astria_core::brotli::compress_bytes(&encoded).ok()?;
            let keep = pick_index(fraction, compressed.len());
            chain::blob_from_raw_bytes(namespace, compressed[..keep].to_vec())
        }
    }
}

// ---------------------------------------------------------------------------------------------
// reference predicates
// ---------------------------------------------------------------------------------------------

/// Is `rollup` bound to `root` by a valid Merkle proof (RFC 6962 reference)?
fn reference_rollup_bound(rollup: &raw::SubmittedRollupData, root: &[u8]) -> bool {
    let (Some(id), Some(proof)) = (&rollup.rollup_id, &rollup.proof) else {
        return false;
    };
    let Ok(root) = <[u8; 32]>::try_from(root) else {
        return false;
    };
    if id.inner.len() != 32 {
        return false;
    }
    let txs_root = rfc6962::mth_of(&rollup.transactions);
    let mut leaf = id.inner.to_vec();
    leaf.extend_from_slice(&txs_root);
    rfc6962::verify_wire(
        proof.leaf_index,
        proof.tree_size,
        &proof.audit_path,
        rfc6962::leaf(&leaf),
        root,
    )
}

fn classify_no_quorum(world: &HeightWorld) -> &'static str {
    let total = world.total_power;
    let rounded_threshold = if total < 3 {
        // not a rounding problem for tiny totals
        u128::MAX
    } else {
        total / 3 * 2
    };
    if world.distinct_signed_power > rounded_threshold {
        "quorum-rounding"
    } else if world.entries_signed_power > world.distinct_signed_power {
        "duplicate-signature-counted"
    } else {
        "accepted-without-quorum"
    }
}

// ---------------------------------------------------------------------------------------------
// interpreter + oracle
// ---------------------------------------------------------------------------------------------

static RECONSTRUCTED_TOTAL: AtomicU64 = AtomicU64::new(0);
static RECONSTRUCTED_WITH_DATA: AtomicU64 = AtomicU64::new(0);

fn executed_block(number: u64) -> raw_exec::ExecutedBlockMetadata {
    raw_exec::ExecutedBlockMetadata {
        number,
        hash: hex::encode(chain::synthetic_hash(b"rollup-block", number, 0)),
        parent_hash: hex::encode(chain::synthetic_hash(b"rollup-block", number.wrapping_sub(1), 0)),
        timestamp: Some(pbjson_types::Timestamp {
            seconds: 1_700_000_000,
            nanos: 0,
        }),
        sequencer_block_hash: String::new(),
    }
}

fn commitment_state(firm: u64, soft: u64) -> CommitmentState {
    CommitmentState::builder()
        .firm_executed_block_metadata(
            ExecutedBlockMetadata::try_from_raw(executed_block(firm)).expect("valid block metadata"),
        )
        .soft_executed_block_metadata(
            ExecutedBlockMetadata::try_from_raw(executed_block(soft)).expect("valid block metadata"),
        )
        .lowest_celestia_search_height(1)
        .build()
        .expect("firm <= soft")
}

fn rollup_state() -> RollupState {
    // rollup block number n <-> sequencer height n
    let session = ExecutionSession::try_from_raw(raw_exec::ExecutionSession {
        session_id: "verif-session".to_string(),
        execution_session_parameters: Some(raw_exec::ExecutionSessionParameters {
            rollup_id: Some(chain::rollup_id(0).into_raw()),
            rollup_start_block_number: 1,
            rollup_end_block_number: 0,
            sequencer_chain_id: CHAIN_ID.to_string(),
            sequencer_start_block_height: 1,
            celestia_chain_id: "verif-celestia".to_string(),
            celestia_search_height_max_look_ahead: 10,
        }),
        commitment_state: Some(commitment_state(0, 0).into_raw()),
    })
    .expect("valid execution session");
    RollupState::new(&session, CommitLevel::SoftAndFirm).expect("valid rollup state")
}

fn case_test(case: &Case, ctx: &mut Ctx) -> CaseResult {
    if case.powers.is_empty() || case.heights.is_empty() {
        ctx.label("noop:empty-case");
        return Ok(());
    }
    let world = Arc::new(build_world(case));
    let metadata_namespace = verif::metadata_namespace(CHAIN_ID);
    let rollup_namespace = verif::rollup_namespace(chain::rollup_id(0));
    let foreign_namespace = verif::rollup_namespace(chain::rollup_id(77));
    let rollup_id = chain::rollup_id(0);

    for h in &world.heights {
        ctx.label(format!("total-mod-3={}", h.total_power % 3));
        ctx.label(if h.has_quorum() { "commit:quorum" } else { "commit:no-quorum" });
        if h.at_boundary {
            ctx.label("commit:at-boundary");
        }
        if h.at_boundary && h.power_decides && h.commit_available() {
            ctx.label("commit:at-boundary-and-power-decides");
        }
        if h.entries_signed_power > h.distinct_signed_power {
            ctx.label("commit:duplicated-signer");
        }
        if !h.all_entries_clean {
            ctx.label("commit:unclean-entries");
        }
    }

    let verifier = {
        let commits = world.clone();
        let validators = world.clone();
        Verifier::new(
            move |height| commits.serve_commit(height),
            move |height| validators.serve_validators(height),
        )
    };
    let mut state = rollup_state();
    let runtime = tokio::runtime::Builder::new_current_thread()
        .enable_all()
        .start_paused(true)
        .build()
        .expect("tokio runtime");

    let mut firm_number = 0_u64;
    let mut earlier_metadata_blobs: Vec<(Blob, Vec<raw::SubmittedMetadata>)> = Vec::new();
    for (celestia_idx, spec) in case.celestia.iter().take(3).enumerate() {
        let celestia_height = celestia_idx as u64 + 1;
        let wanted = u64::from(spec.firm_number).min(world.heights.len() as u64);
        if wanted > firm_number {
            firm_number = wanted;
            state
                .update_commitment_state(
                    commitment_state(firm_number, firm_number),
                    CommitLevel::SoftAndFirm,
                )
                .expect("monotone commitment state is valid");
            ctx.label("firm-advanced");
        }

        // --- build the blobs of this Celestia height
        let mut metadata_blobs: Vec<(Blob, Vec<raw::SubmittedMetadata>)> = Vec::new();
        let (mut honest_items, mut adversarial_items) = (0, 0);
        let mut boundary_exercised = false;
        for blob in spec.metadata.iter().take(4) {
            match blob {
                MetaBlob::List(items, wrap) => {
                    let entries: Vec<raw::SubmittedMetadata> =
                        items.iter().take(3).map(|i| meta_item(&world, i, ctx)).collect();
                    let well_formed = *wrap == Wrap::Relayer
                        && !items
                            .iter()
                            .take(3)
                            .any(|i| matches!(i.kind, MetaKind::BrokenProof | MetaKind::MissingHeader));
                    for (item, entry) in items.iter().take(3).zip(&entries) {
                        ctx.label(format!("meta:{}", variant_name(&item.kind)));
                        if item.kind == MetaKind::Honest && well_formed {
                            honest_items += 1;
                        } else {
                            adversarial_items += 1;
                        }
                        // a decodable item whose claimed height has a commit that the power sum
                        // decides within one validator of the threshold
                        let claimed = entry.header.as_ref().map_or(0, |h| h.height);
                        if well_formed
                            && claimed > firm_number
                            && world
                                .height(claimed)
                                .is_some_and(|w| w.at_boundary && w.power_decides && w.commit_available())
                        {
                            boundary_exercised = true;
                        }
                    }
                    let encoded = prost::Message::encode_to_vec(&raw::SubmittedMetadataList {
                        entries: entries.clone(),
                    });
                    match wrap_bytes(encoded, *wrap, metadata_namespace, foreign_namespace) {
                        Some(blob) => metadata_blobs.push((blob, entries)),
                        None => ctx.label("noop:blob-not-constructible"),
                    }
                }
                MetaBlob::Garbage(bytes, compressed) => {
                    adversarial_items += 1;
                    ctx.label("meta:garbage");
                    let blob = if *compressed {
                        chain::blob_from_uncompressed(metadata_namespace, &bytes.0)
                    } else {
                        chain::blob_from_raw_bytes(metadata_namespace, bytes.0.clone())
                    };
                    match blob {
                        Some(blob) => metadata_blobs.push((blob, vec![])),
                        None => ctx.label("noop:blob-not-constructible"),
                    }
                }
                MetaBlob::RepeatPrevious => match metadata_blobs.last().cloned() {
                    Some(previous) => {
                        ctx.label("meta:duplicate-blob");
                        metadata_blobs.push(previous);
                    }
                    None => ctx.label("noop:nothing-to-repeat"),
                },
                MetaBlob::ReplayEarlier(sel) => {
                    if earlier_metadata_blobs.is_empty() {
                        ctx.label("noop:nothing-to-replay");
                    } else {
                        ctx.label("meta:replayed-blob");
                        adversarial_items += 1;
                        let idx = pick_index(*sel, earlier_metadata_blobs.len());
                        metadata_blobs.push(earlier_metadata_blobs[idx].clone());
                    }
                }
            }
        }
        let mut rollup_blobs: Vec<(Blob, Vec<raw::SubmittedRollupData>)> = Vec::new();
        for blob in spec.rollup.iter().take(6) {
            match blob {
                RollupBlob::List(items, wrap) => {
                    let entries: Vec<raw::SubmittedRollupData> =
                        items.iter().take(2).map(|i| rollup_item(&world, i, ctx)).collect();
                    for item in items.iter().take(2) {
                        ctx.label(format!("rollup:{}", variant_name(&item.kind)));
                        if item.kind == RollupKind::Honest && rollup_list_well_formed(items, *wrap) {
                            honest_items += 1;
                        } else {
                            adversarial_items += 1;
                        }
                    }
                    let encoded = prost::Message::encode_to_vec(&raw::SubmittedRollupDataList {
                        entries: entries.clone(),
                    });
                    match wrap_bytes(encoded, *wrap, rollup_namespace, foreign_namespace) {
                        Some(blob) => rollup_blobs.push((blob, entries)),
                        None => ctx.label("noop:blob-not-constructible"),
                    }
                }
                RollupBlob::Garbage(bytes, compressed) => {
                    adversarial_items += 1;
                    ctx.label("rollup:garbage");
                    let blob = if *compressed {
                        chain::blob_from_uncompressed(rollup_namespace, &bytes.0)
                    } else {
                        chain::blob_from_raw_bytes(rollup_namespace, bytes.0.clone())
                    };
                    match blob {
                        Some(blob) => rollup_blobs.push((blob, vec![])),
                        None => ctx.label("noop:blob-not-constructible"),
                    }
                }
                RollupBlob::RepeatPrevious => match rollup_blobs.last().cloned() {
                    Some(previous) => {
                        ctx.label("rollup:duplicate-blob");
                        rollup_blobs.push(previous);
                    }
                    None => ctx.label("noop:nothing-to-repeat"),
                },
            }
        }
        if honest_items > 0 && adversarial_items > 0 {
            ctx.label("celestia-height:honest-next-to-adversarial");
            ctx.nontrivial();
        }
        if boundary_exercised {
            ctx.label("celestia-height:boundary-commit-exercised");
            ctx.nontrivial();
        }

        // --- run the real pipeline
        let reconstructed: Vec<ReconstructedBlockView> = runtime.block_on(verifier.decode_verify_reconstruct(
            celestia_height,
            metadata_blobs.iter().map(|(b, _)| b.clone()).collect(),
            rollup_blobs.iter().map(|(b, _)| b.clone()).collect(),
            metadata_namespace,
            rollup_namespace,
            rollup_id,
            &state,
        ));
        RECONSTRUCTED_TOTAL.fetch_add(reconstructed.len() as u64, Ordering::Relaxed);

        // --- oracle
        let metadata_candidates: Vec<&raw::SubmittedMetadata> =
            metadata_blobs.iter().flat_map(|(_, items)| items.iter()).collect();
        let rollup_candidates: Vec<&raw::SubmittedRollupData> =
            rollup_blobs.iter().flat_map(|(_, items)| items.iter()).collect();
        let mut seen_hashes = BTreeSet::new();
        for block in &reconstructed {
            vensure!(
                seen_hashes.insert(*block.block_hash.as_bytes()),
                "block-reconstructed-twice",
                "two blocks with hash {} reconstructed from Celestia height {celestia_height}",
                block.block_hash
            );
            vensure!(
                block.celestia_height == celestia_height,
                "wrong-celestia-height",
                "reconstructed block carries Celestia height {} instead of {celestia_height}",
                block.celestia_height
            );
            let header_raw = block.header.clone().into_raw();
            let Some(metadata) = metadata_candidates.iter().find(|m| {
                m.block_hash.as_ref() == block.block_hash.as_bytes() && m.header.as_ref() == Some(&header_raw)
            }) else {
                vfail!(
                    "reconstructed-from-nothing",
                    "block {} at height {} matches no metadata item posted at Celestia height {celestia_height}",
                    block.block_hash,
                    block.height
                );
            };
            // (1) the metadata must be backed by a commit
            let Some(commit_world) = world.height(block.height).filter(|w| w.commit_available()) else {
                vfail!(
                    "no-commit-for-height",
                    "metadata for Sequencer height {} was accepted although Sequencer serves no commit / \
                     validator set for that height",
                    block.height
                );
            };
            let commit_chain_id = commit_world.commit.signed_header.header.chain_id.as_str();
            let chain_matches = header_raw.chain_id == commit_chain_id;
            let hash_matches = block.block_hash.as_bytes() == &commit_world.block_hash;
            vensure!(
                chain_matches && hash_matches,
                "mismatch-not-dropped",
                "metadata (chain id `{}`, height {}, block hash {}) was accepted, but the commit for that \
                 height is for chain id `{commit_chain_id}` and block hash {}",
                header_raw.chain_id,
                block.height,
                block.block_hash,
                hex::encode(commit_world.block_hash)
            );
            vensure!(
                commit_world.has_quorum(),
                classify_no_quorum(commit_world),
                "metadata for height {} was accepted, but in its commit distinct validators holding only {} \
                 of {} voting power validly signed the block (power summed over all valid commit entries: \
                 {}); strictly more than 2/3 is required",
                block.height,
                commit_world.distinct_signed_power,
                commit_world.total_power,
                commit_world.entries_signed_power
            );
            ctx.label("accepted");
            // (2) attached rollup data must be bound to the metadata's root
            let root = &header_raw.rollup_transactions_root;
            let contains_rollup = metadata
                .rollup_ids
                .iter()
                .any(|id| id.inner.as_ref() == rollup_id.as_bytes());
            let bound = rollup_candidates.iter().find(|r| {
                r.sequencer_block_hash.as_ref() == block.block_hash.as_bytes()
                    && r.transactions == block.transactions
                    && reference_rollup_bound(r, root)
            });
            match bound {
                Some(rollup) => {
                    RECONSTRUCTED_WITH_DATA.fetch_add(1, Ordering::Relaxed);
                    ctx.label("accepted:with-rollup-data");
                    if rollup.rollup_id.as_ref().map(|id| id.inner.as_ref()) != Some(rollup_id.as_bytes().as_slice()) {
                        // permitted by the property as stated (the data is bound to the root), but
                        // worth knowing: another rollup's data is executed
                        ctx.label("observation:foreign-rollup-data-attached");
                    }
                }
                None => {
                    vensure!(
                        block.transactions.is_empty() && !contains_rollup,
                        "unbound-rollup-data",
                        "block {} at height {} was reconstructed with {} transaction(s), but no rollup blob \
                         posted at Celestia height {celestia_height} with these transactions is bound to the \
                         metadata's rollup transactions root by a valid Merkle proof (metadata lists the \
                         rollup: {contains_rollup})",
                        block.block_hash,
                        block.height,
                        block.transactions.len()
                    );
                    ctx.label("accepted:empty");
                }
            }
            if metadata.header != commit_world.metadata.header {
                ctx.label("observation:forged-content-under-committed-hash");
            }
        }
        earlier_metadata_blobs.extend(metadata_blobs);
    }
    Ok(())
}

// ---------------------------------------------------------------------------------------------
// harness baseline: fully honest input must be reconstructed (vacuity guard, not a verdict)
// ---------------------------------------------------------------------------------------------

fn baseline_case(validators: usize, with_data: bool) -> Case {
    Case {
        powers: vec![1; validators],
        heights: vec![HeightSpec {
            ours: with_data.then(|| vec![HexBytes(vec![1, 2, 3]), HexBytes(vec![])]),
            others: 2,
            round: 1,
            votes: vec![VoteSpec::Valid; 7],
            boundary: Boundary::AsGiven,
            extras: vec![],
            serve: Serve::Ok,
        }],
        celestia: vec![CelestiaSpec {
            firm_number: 0,
            metadata: vec![MetaBlob::List(
                vec![MetaItem {
                    height: 0,
                    kind: MetaKind::Honest,
                }],
                Wrap::Relayer,
            )],
            rollup: vec![RollupBlob::List(
                vec![RollupItem {
                    height: 0,
                    kind: RollupKind::Honest,
                }],
                Wrap::Relayer,
            )],
        }],
    }
}

fn baseline_ok() -> Result<(), String> {
    for (validators, with_data) in [(1, true), (4, true), (7, false)] {
        let before = RECONSTRUCTED_TOTAL.load(Ordering::Relaxed);
        let before_data = RECONSTRUCTED_WITH_DATA.load(Ordering::Relaxed);
        let mut ctx = Ctx::default();
        let case = baseline_case(validators, with_data);
        match vcommon::catch(|| case_test(&case, &mut ctx)) {
            Ok(Ok(())) => {}
            Ok(Err(failure)) => return Err(format!("baseline case failed: {}", failure.message)),
            Err(panic) => return Err(format!("baseline case panicked: {panic:?}")),
        }
        if RECONSTRUCTED_TOTAL.load(Ordering::Relaxed) != before + 1 {
            return Err(format!(
                "fully honest input ({validators} validators) was not reconstructed"
            ));
        }
        if with_data && RECONSTRUCTED_WITH_DATA.load(Ordering::Relaxed) != before_data + 1 {
            return Err("honest rollup data was not attached".to_string());
        }
    }
    Ok(())
}

pub fn run(args: &[String]) -> ! {
    let mut s = Session::from_args("C09", "exploration", args);
    s.assume(
        "the validator set served by Sequencer's CometBFT RPC for a height is the true one; the commit \
         it serves is untrusted as to its signatures (any subset, duplicates, forgeries), but is the \
         response for the requested height",
    );
    s.assume(
        "which commit entries carry a valid signature is known by construction (ed25519 signatures are \
         made with the generated keys over tendermint's canonical precommit bytes); SHA-256 / ed25519 are \
         treated as ideal",
    );
    s.assume(
        "the property binds metadata to a commit only through (chain id, height, block hash): other \
         header content under a committed hash is outside the statement (counted as observation)",
    );
    if !s.is_replay() {
        let started = std::time::Instant::now();
        let verdict = baseline_ok();
        let samples = [(1, true), (4, true), (7, false)]
            .into_iter()
            .map(|(validators, with_data)| {
                serde_json::json!({ "case": baseline_case(validators, with_data), "expected": "reconstructed" })
            })
            .collect();
        s.add_external(
            "honest_baseline",
            "three fully honest inputs (1 / 4 / 7 validators all signing, with and without rollup data) must be \
             reconstructed; a failure makes the run inconclusive (vacuity guard), never a violation",
            3,
            0,
            samples,
            started.elapsed().as_secs_f64(),
        );
        if let Err(why) = verdict {
            s.inconclusive(format!("harness baseline: {why}"));
        }
    }
    s.run_prop(Prop {
        name: "celestia_acceptance",
        rule: "1-7 validators (equal small powers or powers from {1..12, 2^31.., 2^59.., 2^62}), 1-3 \
               Sequencer heights each with a commit built from a real tendermint header (votes: valid / \
               absent / nil / nine kinds of forgery; signer subsets placed just below / just above 2/3; \
               duplicated and non-member entries; failing RPC), 1-3 Celestia heights with 0-4 metadata \
               blobs and 0-6 rollup blobs (honest, wrong hash / chain id / height, forged content, \
               duplicate, replay, malformed, foreign proofs, truncated / over-long / ragged paths, \
               garbage, foreign namespace, bad compression). Non-trivial: a decodable metadata item whose \
               height has a commit that is decided by the power sum and whose verdict flips when one \
               validator's vote is toggled, or a Celestia height with at least one honest and one \
               adversarial item",
        cases_quick: 80_000,
        cases_thorough: 2_000_000,
        shards: 12,
        min_nontrivial: 0.5,
        max_shrink_iters: 20_000,
        strategy: Box::new(case),
        test: Box::new(case_test),
    });
    s.extra(
        "reconstructed_blocks_total",
        RECONSTRUCTED_TOTAL.load(Ordering::Relaxed),
    );
    s.extra(
        "reconstructed_blocks_with_rollup_data",
        RECONSTRUCTED_WITH_DATA.load(Ordering::Relaxed),
    );
    s.finish()
}
