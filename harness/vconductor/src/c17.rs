//! C17 (conductor part) — decoding Celestia blobs never panics; accepted values are
//! self-consistent.
//!
//! Domain: honest blobs (built through `astria-core`'s block builder and relayer's encoding)
//! mutated at the protobuf field level (delete / duplicate a field, lie about a length prefix, set
//! or add varints such as a proof's `leaf_index` / `tree_size`, truncate, splice, flip bits), then
//! brotli-compressed; mutations of the compressed bytes; raw bytes.
//!
//! Driver: conductor's real `decode_raw_blobs` and `reconstruct_blocks_from_verified_blobs`
//! through `astria_conductor::verif`.
//!
//! Oracle: no panic; every decoded item survives `into_raw -> try_from_raw -> into_raw` and a
//! protobuf encode/decode unchanged (so the type's own checks hold on the re-encoding); re-posting
//! the decoded items the way relayer would decodes to the same items; reconstruction never panics
//! and only uses decoded items.

use astria_conductor::verif;
use astria_core::{
    generated::astria::sequencerblock::v1 as raw,
    sequencerblock::v1::{
        SubmittedMetadata,
        SubmittedRollupData,
    },
};
use celestia_types::Blob;
use proptest::prelude::*;
use prost::Message as _;
use serde::{
    Deserialize,
    Serialize,
};
use vcommon::{
    catch,
    gen::{
        pick_index,
        HexBytes,
    },
    panic_failure,
    vensure,
    vfail,
    CaseResult,
    Ctx,
    Prop,
    Session,
    Tier,
};

use crate::{
    chain::{
        self,
        CHAIN_ID,
    },
    wire::{
        self,
        Edit,
    },
};

#[derive(Clone, Copy, Debug, PartialEq, Eq, Serialize, Deserialize)]
pub enum Varint {
    Zero,
    One,
    Two,
    TwoPow31,
    TwoPow32,
    TwoPow63,
    Max,
    HalfUsizeMax,
    Small(u8),
}

impl Varint {
    fn value(self) -> u64 {
        match self {
            Varint::Zero => 0,
            Varint::One => 1,
            Varint::Two => 2,
            Varint::TwoPow31 => 1 << 31,
            Varint::TwoPow32 => 1 << 32,
            Varint::TwoPow63 => 1 << 63,
            Varint::Max => u64::MAX,
            Varint::HalfUsizeMax => (usize::MAX / 2) as u64 + 1,
            Varint::Small(v) => u64::from(v),
        }
    }
}

#[derive(Clone, Debug, Serialize, Deserialize)]
pub enum Mutation {
    // --- on the protobuf field tree of the uncompressed list message
    Delete(u16),
    Duplicate(u16),
    /// set the n-th varint field
    SetVarint(u16, Varint),
    /// add a varint field (number 1..=4) to the n-th nested message
    AddVarint(u16, u8, Varint),
    /// the n-th field's length prefix lies by this delta
    LengthDelta(u16, i8),
    /// the n-th length-delimited field is cut to this fraction
    TruncateNested(u16, u16),
    ReplaceBytes(u16, HexBytes),
    // --- on the encoded bytes
    Truncate(u16),
    BitFlip(u16, u8),
    /// copy `len` bytes from `from` to `at`
    Splice { at: u16, from: u16, len: u8 },
    // --- on the compressed bytes
    CompressedBitFlip(u16, u8),
    CompressedTruncate(u16),
    CompressedAppend(HexBytes),
    /// post the protobuf bytes uncompressed
    NotCompressed,
}

#[derive(Clone, Copy, Debug, PartialEq, Eq, Serialize, Deserialize)]
pub enum Target {
    Metadata,
    Rollup,
    Both,
}

#[derive(Clone, Debug, Serialize, Deserialize)]
pub struct Case {
    /// payloads of the followed rollup per block (1-2 blocks); `None`: no data in that block
    blocks: Vec<Option<Vec<HexBytes>>>,
    others: u8,
    target: Target,
    mutations: Vec<Mutation>,
    /// also post this arbitrary blob in both namespaces
    raw_blob: Option<(HexBytes, bool)>,
}

fn varint() -> impl Strategy<Value = Varint> {
    prop_oneof![
        Just(Varint::Zero),
        Just(Varint::One),
        Just(Varint::Two),
        Just(Varint::TwoPow31),
        Just(Varint::TwoPow32),
        Just(Varint::TwoPow63),
        Just(Varint::Max),
        Just(Varint::HalfUsizeMax),
        any::<u8>().prop_map(Varint::Small),
    ]
}

fn mutation() -> impl Strategy<Value = Mutation> {
    let bytes = || proptest::collection::vec(any::<u8>(), 0..40).prop_map(HexBytes);
    prop_oneof![
        4 => any::<u16>().prop_map(Mutation::Delete),
        4 => any::<u16>().prop_map(Mutation::Duplicate),
        8 => (any::<u16>(), varint()).prop_map(|(a, b)| Mutation::SetVarint(a, b)),
        6 => (any::<u16>(), 1_u8..=4, varint()).prop_map(|(a, b, c)| Mutation::AddVarint(a, b, c)),
        4 => (any::<u16>(), prop_oneof![-3_i8..=3, Just(i8::MAX), Just(i8::MIN)])
            .prop_map(|(a, b)| Mutation::LengthDelta(a, b)),
        3 => (any::<u16>(), any::<u16>()).prop_map(|(a, b)| Mutation::TruncateNested(a, b)),
        3 => (any::<u16>(), bytes()).prop_map(|(a, b)| Mutation::ReplaceBytes(a, b)),
        2 => any::<u16>().prop_map(Mutation::Truncate),
        3 => (any::<u16>(), 0_u8..8).prop_map(|(a, b)| Mutation::BitFlip(a, b)),
        2 => (any::<u16>(), any::<u16>(), 1_u8..=64).prop_map(|(at, from, len)| Mutation::Splice { at, from, len }),
        2 => (any::<u16>(), 0_u8..8).prop_map(|(a, b)| Mutation::CompressedBitFlip(a, b)),
        1 => any::<u16>().prop_map(Mutation::CompressedTruncate),
        1 => bytes().prop_map(Mutation::CompressedAppend),
        1 => Just(Mutation::NotCompressed),
    ]
}

fn case(_tier: Tier) -> BoxedStrategy<Case> {
    let payloads = proptest::collection::vec(
        proptest::collection::vec(any::<u8>(), 0..6).prop_map(HexBytes),
        1..=3,
    );
    (
        proptest::collection::vec(prop_oneof![3 => payloads.prop_map(Some), 1 => Just(None)], 1..=2),
        0_u8..=2,
        prop_oneof![Just(Target::Metadata), Just(Target::Rollup), Just(Target::Both)],
        proptest::collection::vec(mutation(), 1..=3),
        prop_oneof![
            5 => Just(None),
            1 => (proptest::collection::vec(any::<u8>(), 0..64).prop_map(HexBytes), any::<bool>()).prop_map(Some),
        ],
    )
        .prop_map(|(blocks, others, target, mutations, raw_blob)| Case {
            blocks,
            others,
            target,
            mutations,
            raw_blob,
        })
        .boxed()
}

struct Mutated {
    data: Vec<u8>,
    /// the bytes differ from the honest blob's
    changed: bool,
    /// the blob still decompresses and decodes as the list message (reaches validation)
    parses: bool,
}

fn mutate(encoded: &[u8], mutations: &[Mutation], is_metadata: bool, ctx: &mut Ctx) -> Mutated {
    let honest_compressed = astria_core::brotli::compress_bytes(encoded).expect("compression works");
    let mut tree = wire::parse(encoded, 6).expect("prost output is a valid message");
    // tree level
    for m in mutations {
        let n = wire::count(&tree);
        let applied = match m {
            Mutation::Delete(sel) => wire::apply(&mut tree, &mut pick_index(*sel, n), &Edit::Delete),
            Mutation::Duplicate(sel) => wire::apply(&mut tree, &mut pick_index(*sel, n), &Edit::Duplicate),
            Mutation::SetVarint(sel, value) => {
                let varints = wire::varint_indices(&tree);
                match varints.get(pick_index(*sel, varints.len())) {
                    Some(index) if !varints.is_empty() => {
                        wire::apply(&mut tree, &mut index.clone(), &Edit::SetVarint(value.value()))
                    }
                    _ => false,
                }
            }
            Mutation::AddVarint(sel, number, value) => {
                let messages = wire::message_indices(&tree);
                match messages.get(pick_index(*sel, messages.len())) {
                    Some(index) if !messages.is_empty() => wire::apply(
                        &mut tree,
                        &mut index.clone(),
                        &Edit::AddVarintChild(u32::from(*number), value.value()),
                    ),
                    _ => false,
                }
            }
            Mutation::LengthDelta(sel, delta) => wire::apply(
                &mut tree,
                &mut pick_index(*sel, n),
                &Edit::LengthDelta(i64::from(*delta)),
            ),
            Mutation::TruncateNested(sel, fraction) => {
                // resolved against a generous bound; the edit itself is a no-op if nothing is cut
                wire::apply(
                    &mut tree,
                    &mut pick_index(*sel, n),
                    &Edit::TruncateNested(pick_index(*fraction, 96)),
                )
            }
            Mutation::ReplaceBytes(sel, bytes) => wire::apply(
                &mut tree,
                &mut pick_index(*sel, n),
                &Edit::ReplaceBytes(bytes.0.clone()),
            ),
            _ => continue,
        };
        ctx.label(if applied { "mutation:tree" } else { "noop:tree-mutation-not-applicable" });
    }
    // byte level
    let mut bytes = wire::encode(&tree);
    for m in mutations {
        match m {
            Mutation::Truncate(fraction) => {
                let keep = pick_index(*fraction, bytes.len());
                bytes.truncate(keep);
                ctx.label("mutation:truncate");
            }
            Mutation::BitFlip(pos, bit) => {
                if bytes.is_empty() {
                    ctx.label("noop:empty-bytes");
                } else {
                    let p = pick_index(*pos, bytes.len());
                    bytes[p] ^= 1 << (bit % 8);
                    ctx.label("mutation:bit-flip");
                }
            }
            Mutation::Splice {
                at,
                from,
                len,
            } => {
                if bytes.is_empty() {
                    ctx.label("noop:empty-bytes");
                } else {
                    let from = pick_index(*from, bytes.len());
                    let chunk: Vec<u8> = bytes[from..(from + *len as usize).min(bytes.len())].to_vec();
                    let at = pick_index(*at, bytes.len());
                    bytes.splice(at..at, chunk);
                    ctx.label("mutation:splice");
                }
            }
            _ => {}
        }
    }
    // compression level
    let mut data = if mutations.iter().any(|m| matches!(m, Mutation::NotCompressed)) {
        ctx.label("mutation:not-compressed");
        bytes
    } else {
        astria_core::brotli::compress_bytes(&bytes).expect("compression works")
    };
    for m in mutations {
        match m {
            Mutation::CompressedBitFlip(pos, bit) => {
                if !data.is_empty() {
                    let p = pick_index(*pos, data.len());
                    data[p] ^= 1 << (bit % 8);
                    ctx.label("mutation:compressed-bit-flip");
                }
            }
            Mutation::CompressedTruncate(fraction) => {
                let keep = pick_index(*fraction, data.len());
                data.truncate(keep);
                ctx.label("mutation:compressed-truncate");
            }
            Mutation::CompressedAppend(extra) => {
                data.extend_from_slice(&extra.0);
                ctx.label("mutation:compressed-append");
            }
            _ => {}
        }
    }
    let changed = data != honest_compressed;
    // classification only: does the blob reach validation?
    let parses = catch(|| {
        astria_core::brotli::decompress_bytes(&data).ok().is_some_and(|plain| {
            if is_metadata {
                raw::SubmittedMetadataList::decode(&*plain).is_ok()
            } else {
                raw::SubmittedRollupDataList::decode(&*plain).is_ok()
            }
        })
    })
    .unwrap_or(false);
    Mutated {
        data,
        changed,
        parses,
    }
}

fn check_metadata_roundtrip(item: &SubmittedMetadata) -> CaseResult {
    let raw1 = item.clone().into_raw();
    let again = match catch(|| SubmittedMetadata::try_from_raw(raw1.clone())) {
        Ok(Ok(again)) => again,
        Ok(Err(error)) => vfail!(
            "reencode-rejected",
            "a decoded SubmittedMetadata is rejected after into_raw/try_from_raw: {error:?}"
        ),
        Err(panic) => vfail!(
            "decode-panic",
            "try_from_raw of a re-encoded SubmittedMetadata panicked: {}",
            panic_failure(panic).message
        ),
    };
    vensure!(
        again.into_raw() == raw1,
        "reencode-differs",
        "SubmittedMetadata differs after into_raw/try_from_raw/into_raw"
    );
    let bytes = raw1.encode_to_vec();
    vensure!(
        raw::SubmittedMetadata::decode(&*bytes).ok().as_ref() == Some(&raw1),
        "reencode-differs",
        "SubmittedMetadata differs after protobuf encode/decode"
    );
    Ok(())
}

fn check_rollup_roundtrip(item: &SubmittedRollupData) -> CaseResult {
    let raw1 = item.clone().into_raw();
    let again = match catch(|| SubmittedRollupData::try_from_raw(raw1.clone())) {
        Ok(Ok(again)) => again,
        Ok(Err(error)) => vfail!(
            "reencode-rejected",
            "a decoded SubmittedRollupData is rejected after into_raw/try_from_raw: {error:?}"
        ),
        Err(panic) => vfail!(
            "decode-panic",
            "try_from_raw of a re-encoded SubmittedRollupData panicked: {}",
            panic_failure(panic).message
        ),
    };
    vensure!(
        again.into_raw() == raw1,
        "reencode-differs",
        "SubmittedRollupData differs after into_raw/try_from_raw/into_raw"
    );
    let bytes = raw1.encode_to_vec();
    vensure!(
        raw::SubmittedRollupData::decode(&*bytes).ok().as_ref() == Some(&raw1),
        "reencode-differs",
        "SubmittedRollupData differs after protobuf encode/decode"
    );
    Ok(())
}

fn case_test(case: &Case, ctx: &mut Ctx) -> CaseResult {
    let metadata_namespace = verif::metadata_namespace(CHAIN_ID);
    let rollup_id = chain::rollup_id(0);
    let rollup_namespace = verif::rollup_namespace(rollup_id);

    // honest input: 1-2 blocks in one submission
    let mut metadata_entries = Vec::new();
    let mut rollup_entries = Vec::new();
    for (i, ours) in case.blocks.iter().take(2).enumerate() {
        let height = i as u64 + 1;
        let mut data = Vec::new();
        for other in 1..=case.others.min(2) {
            data.push((chain::rollup_id(other), vec![0xB0 + other, height as u8]));
        }
        if let Some(payloads) = ours {
            for payload in payloads.iter().take(3) {
                data.push((rollup_id, payload.0.clone()));
            }
        }
        let block = chain::make_block(
            CHAIN_ID,
            height as u32,
            chain::synthetic_hash(b"c17-block", height, 0),
            data,
        );
        let (metadata, rollup_data) = chain::split_raw(block);
        metadata_entries.push(metadata);
        rollup_entries.extend(
            rollup_data
                .into_iter()
                .filter(|r| r.rollup_id == Some(rollup_id.into_raw())),
        );
    }
    let metadata_encoded = raw::SubmittedMetadataList {
        entries: metadata_entries,
    }
    .encode_to_vec();
    let rollup_encoded = raw::SubmittedRollupDataList {
        entries: rollup_entries,
    }
    .encode_to_vec();

    let mutate_metadata = matches!(case.target, Target::Metadata | Target::Both);
    let mutate_rollup = matches!(case.target, Target::Rollup | Target::Both);
    let no_mutations: [Mutation; 0] = [];
    let metadata = mutate(
        &metadata_encoded,
        if mutate_metadata { &case.mutations } else { &no_mutations },
        true,
        ctx,
    );
    let rollup = mutate(
        &rollup_encoded,
        if mutate_rollup { &case.mutations } else { &no_mutations },
        false,
        ctx,
    );
    if (metadata.changed && metadata.parses) || (rollup.changed && rollup.parses) {
        ctx.label("mutated-and-reaches-validation");
        ctx.nontrivial();
    }
    if !metadata.changed && !rollup.changed {
        ctx.label("noop:nothing-changed");
    }

    let mut metadata_blobs: Vec<Blob> = chain::blob_from_raw_bytes(metadata_namespace, metadata.data)
        .into_iter()
        .collect();
    let mut rollup_blobs: Vec<Blob> = chain::blob_from_raw_bytes(rollup_namespace, rollup.data)
        .into_iter()
        .collect();
    if let Some((bytes, compressed)) = &case.raw_blob {
        ctx.label("raw-blob");
        for (namespace, list) in [
            (metadata_namespace, &mut metadata_blobs),
            (rollup_namespace, &mut rollup_blobs),
        ] {
            let blob = if *compressed {
                chain::blob_from_uncompressed(namespace, &bytes.0)
            } else {
                chain::blob_from_raw_bytes(namespace, bytes.0.clone())
            };
            list.extend(blob);
        }
    }

    // --- decode (real `decode_raw_blobs`)
    let decoded = match catch(|| {
        verif::decode_fetched_blobs(
            7,
            metadata_blobs.clone(),
            rollup_blobs.clone(),
            metadata_namespace,
            rollup_namespace,
        )
    }) {
        Ok(decoded) => decoded,
        Err(panic) => vfail!(
            "decode-panic",
            "decode_raw_blobs panicked: {}",
            panic_failure(panic).message
        ),
    };
    let decoded_metadata = decoded.metadata();
    let decoded_rollup = decoded.rollup_data();
    ctx.label(format!("decoded-metadata:{}", decoded_metadata.len().min(3)));
    ctx.label(format!("decoded-rollup:{}", decoded_rollup.len().min(3)));

    // --- accepted values are self-consistent
    for item in &decoded_metadata {
        check_metadata_roundtrip(item)?;
    }
    for item in &decoded_rollup {
        check_rollup_roundtrip(item)?;
    }
    // re-posting what was decoded, the way relayer encodes it, decodes to the same items
    let reposted_metadata = chain::relayer_blob(
        metadata_namespace,
        &raw::SubmittedMetadataList {
            entries: decoded_metadata.iter().cloned().map(SubmittedMetadata::into_raw).collect(),
        },
    );
    let reposted_rollup = chain::relayer_blob(
        rollup_namespace,
        &raw::SubmittedRollupDataList {
            entries: decoded_rollup.iter().cloned().map(SubmittedRollupData::into_raw).collect(),
        },
    );
    let redecoded = match catch(|| {
        verif::decode_fetched_blobs(
            7,
            reposted_metadata.into_iter().collect(),
            reposted_rollup.into_iter().collect(),
            metadata_namespace,
            rollup_namespace,
        )
    }) {
        Ok(redecoded) => redecoded,
        Err(panic) => vfail!(
            "decode-panic",
            "decode_raw_blobs panicked on re-posted items: {}",
            panic_failure(panic).message
        ),
    };
    let first: Vec<raw::SubmittedMetadata> =
        decoded_metadata.iter().cloned().map(SubmittedMetadata::into_raw).collect();
    let second: Vec<raw::SubmittedMetadata> =
        redecoded.metadata().into_iter().map(SubmittedMetadata::into_raw).collect();
    vensure!(
        first == second,
        "redecode-differs",
        "{} decoded metadata items re-posted like relayer decode to {} different items",
        first.len(),
        second.len()
    );
    let first: Vec<raw::SubmittedRollupData> =
        decoded_rollup.iter().cloned().map(SubmittedRollupData::into_raw).collect();
    let second: Vec<raw::SubmittedRollupData> =
        redecoded.rollup_data().into_iter().map(SubmittedRollupData::into_raw).collect();
    vensure!(
        first == second,
        "redecode-differs",
        "{} decoded rollup items re-posted like relayer decode to {} different items",
        first.len(),
        second.len()
    );

    // --- reconstruct (real `reconstruct_blocks_from_verified_blobs`)
    let blocks = match catch(|| verif::reconstruct_unverified(&decoded, rollup_id)) {
        Ok(blocks) => blocks,
        Err(panic) => vfail!(
            "reconstruct-panic",
            "reconstruct_blocks_from_verified_blobs panicked: {}",
            panic_failure(panic).message
        ),
    };
    ctx.label(format!("reconstructed:{}", blocks.len().min(3)));
    for block in &blocks {
        let header = block.header.clone().into_raw();
        vensure!(
            decoded_metadata
                .iter()
                .any(|m| m.block_hash() == &block.block_hash && m.header().clone().into_raw() == header),
            "reconstructed-from-nothing",
            "reconstructed block {} is not one of the decoded metadata items",
            block.block_hash
        );
        vensure!(
            block.transactions.is_empty()
                || decoded_rollup.iter().any(|r| {
                    r.sequencer_block_hash() == &block.block_hash && r.transactions() == block.transactions.as_slice()
                }),
            "reconstructed-from-nothing",
            "the transactions of reconstructed block {} are not those of a decoded rollup item",
            block.block_hash
        );
    }
    Ok(())
}

pub fn run(args: &[String]) -> ! {
    let mut s = Session::from_args("C17", "exploration", args);
    s.assume(
        "conductor part: blobs reach conductor through decode_raw_blobs (brotli -> protobuf list -> \
         SubmittedMetadata / SubmittedRollupData::try_from_raw) and reconstruct_blocks_from_verified_blobs",
    );
    s.run_prop(Prop {
        name: "conductor_blob_decoders",
        rule: "honest relayer blobs of 1-2 blocks (0-2 foreign rollups, 0-3 payloads) with 1-3 mutations: \
               protobuf field tree (delete / duplicate a field, set a varint to 0, 1, 2, 2^31, 2^32, \
               usize::MAX/2+1, 2^63, 2^64-1, add such a varint as field 1..4 of a nested message — e.g. a \
               proof's leaf_index / tree_size —, lying length prefix, truncated or replaced nested \
               payload), encoded bytes (truncate, bit flip, splice), compressed bytes (bit flip, \
               truncate, append, no compression), plus raw blobs. Non-trivial: a blob that differs from \
               the honest one and still decompresses and decodes as the protobuf list (reaches validation)",
        cases_quick: 150_000,
        cases_thorough: 3_000_000,
        shards: 12,
        min_nontrivial: 0.3,
        max_shrink_iters: 4000,
        strategy: Box::new(case),
        test: Box::new(case_test),
    });
    s.finish()
}
