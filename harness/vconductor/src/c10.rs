//! C10 — conductor executes each Sequencer height exactly once, in order, on the right parent;
//! commitments are monotone, firm <= soft, and firm names the block executed from that height.
//!
//! Driver: the real executor state machine (`executor::Initialized`, through
//! `astria_conductor::verif::Executor`) with the real gRPC client pointed at an in-process fake
//! rollup. The harness plays the two readers with the real `BlockCache`s in front of the
//! executor's channels; `Step` is one iteration of the executor's biased `select!` (real
//! `execute_firm` / `execute_soft` / `is_spread_too_large`). Deliveries can also be injected past
//! the caches, and a case may end by running the real `run_event_loop` over what is queued.
//!
//! Oracle: invariants over the fake rollup's RPC log (see `check_log`) plus, per step, the
//! correlation of the new log entries with the block the executor just received.

use std::{
    collections::{
        BTreeMap,
        BTreeSet,
        HashMap,
        VecDeque,
    },
    sync::{
        Arc,
        Mutex,
    },
};

use astria_conductor::verif::{
    CacheInsert,
    CommitLevel,
    Executor,
    FirmBlockCache,
    Forward,
    ReconstructedBlockView,
    SoftBlockCache,
    Step,
};
use astria_core::{
    generated::astria::execution::v2 as raw_exec,
    sequencerblock::v1::block::FilteredSequencerBlock,
};
use proptest::prelude::*;
use serde::{
    Deserialize,
    Serialize,
};
use vcommon::{
    gen::pick_index,
    vensure,
    vfail,
    CaseResult,
    Ctx,
    Failure,
    Prop,
    Session,
    Tier,
};

use crate::{
    chain::{
        self,
        CHAIN_ID,
    },
    fake_rollup::{
        self,
        BlockRecord,
        FakeRollup,
        Rpc,
    },
};

// ---------------------------------------------------------------------------------------------
// the abstract case
// ---------------------------------------------------------------------------------------------

#[derive(Clone, Copy, Debug, PartialEq, Eq, Serialize, Deserialize)]
pub enum Mode {
    SoftOnly,
    FirmOnly,
    SoftAndFirm,
}

impl Mode {
    fn commit_level(self) -> CommitLevel {
        match self {
            Mode::SoftOnly => CommitLevel::SoftOnly,
            Mode::FirmOnly => CommitLevel::FirmOnly,
            Mode::SoftAndFirm => CommitLevel::SoftAndFirm,
        }
    }

    fn with_soft(self) -> bool {
        !matches!(self, Mode::FirmOnly)
    }

    fn with_firm(self) -> bool {
        !matches!(self, Mode::SoftOnly)
    }
}

/// Which Sequencer height a delivery is for, relative to the receiving reader's cache.
#[derive(Clone, Copy, Debug, PartialEq, Eq, Serialize, Deserialize)]
pub enum Which {
    /// the lowest height the reader is still waiting for
    Next,
    /// a height that is already in the cache
    Dup(u16),
    /// a height below the one the cache will yield next
    Stale(u16),
    /// this many heights beyond `Next` (out-of-order arrival; the gap is filled by later `Next`s)
    Ahead(u8),
}

#[derive(Clone, Copy, Debug, PartialEq, Eq, Serialize, Deserialize)]
pub enum Ev {
    /// a block arrives at the Sequencer reader (real `BlockCache::insert`); if `forward` the
    /// reader then runs one loop iteration (`sync`: it has seen the executor's latest state)
    Soft { which: Which, sync: bool, forward: bool },
    /// a block arrives at the Celestia reader
    Firm { which: Which, forward: bool },
    SoftForward { sync: bool },
    FirmForward,
    /// this many iterations of the executor's event loop
    Step(u8),
    /// this many times: the next soft block arrives, the reader forwards, the executor steps
    SoftBurst(u8),
    /// this many times: the next firm block arrives, the reader forwards, the executor steps
    FirmBurst(u8),
    /// a delivery straight into the executor's channel, past the reader's cache
    InjectSoft(Which),
    InjectFirm(Which),
}

#[derive(Clone, Copy, Debug, PartialEq, Eq, Serialize, Deserialize)]
pub enum Finish {
    Stop,
    /// readers forward and the executor steps until nothing moves any more
    DrainSteps,
    /// readers forward what fits, then the real `run_event_loop` drains the channels
    RealLoop,
}

#[derive(Clone, Debug, Serialize, Deserialize)]
pub struct Case {
    mode: Mode,
    /// `sequencer_start_block_height`
    sequencer_start: u8,
    /// `rollup_start_block_number`
    rollup_start: u8,
    /// initial firm number = rollup_start - 1 + firm_offset
    firm_offset: u8,
    /// initial soft number = firm number + soft_lead (0 in firm-only mode)
    soft_lead: u8,
    /// `celestia_search_height_max_look_ahead`
    look_ahead: u8,
    /// bit (height % 32): the block has data for the rollup
    data_mask: u32,
    events: Vec<Ev>,
    finish: Finish,
}

// ---------------------------------------------------------------------------------------------
// generator
// ---------------------------------------------------------------------------------------------

fn which() -> impl Strategy<Value = Which> {
    prop_oneof![
        12 => Just(Which::Next),
        2 => any::<u16>().prop_map(Which::Dup),
        2 => any::<u16>().prop_map(Which::Stale),
        2 => (1_u8..=3).prop_map(Which::Ahead),
    ]
}

/// Events of one phase; `soft` / `firm` / `step` are relative weights.
fn phase(soft: u32, firm: u32, step: u32) -> impl Strategy<Value = Vec<Ev>> {
    let ev = prop_oneof![
        soft * 12 => (which(), any::<bool>(), prop::bool::weighted(0.8))
            .prop_map(|(which, sync, forward)| Ev::Soft { which, sync, forward }),
        firm * 12 => (which(), prop::bool::weighted(0.8)).prop_map(|(which, forward)| Ev::Firm { which, forward }),
        soft * 3 => any::<bool>().prop_map(|sync| Ev::SoftForward { sync }),
        firm * 3 => Just(Ev::FirmForward),
        step * 12 => (1_u8..=3).prop_map(Ev::Step),
        soft * 4 => (1_u8..=4).prop_map(Ev::SoftBurst),
        firm * 4 => (1_u8..=4).prop_map(Ev::FirmBurst),
        1 => which().prop_map(Ev::InjectSoft),
        1 => which().prop_map(Ev::InjectFirm),
    ];
    proptest::collection::vec(ev, 2..=16)
}

fn events() -> impl Strategy<Value = Vec<Ev>> {
    let any_phase = prop_oneof![
        phase(6, 1, 4),
        phase(1, 6, 4),
        phase(4, 4, 4),
        phase(5, 5, 1),
        phase(1, 1, 6),
    ];
    proptest::collection::vec(any_phase, 1..=5).prop_map(|phases| phases.concat())
}

fn case(_tier: Tier) -> BoxedStrategy<Case> {
    (
        prop_oneof![
            6 => Just(Mode::SoftAndFirm),
            2 => Just(Mode::SoftOnly),
            2 => Just(Mode::FirmOnly),
        ],
        prop_oneof![3 => Just(1_u8), 2 => 1_u8..=40],
        prop_oneof![2 => Just(0_u8), 2 => Just(1_u8), 2 => 0_u8..=40],
        prop_oneof![3 => Just(0_u8), 2 => 0_u8..=3],
        prop_oneof![3 => Just(0_u8), 2 => 0_u8..=3],
        prop_oneof![1 => 1_u8..=2, 4 => 3_u8..=8],
        any::<u32>(),
        events(),
        prop_oneof![
            2 => Just(Finish::Stop),
            3 => Just(Finish::DrainSteps),
            3 => Just(Finish::RealLoop),
        ],
    )
        .prop_map(
            |(mode, sequencer_start, rollup_start, firm_offset, soft_lead, look_ahead, data_mask, events, finish)| {
                Case {
                    mode,
                    sequencer_start,
                    rollup_start,
                    firm_offset,
                    soft_lead,
                    look_ahead,
                    data_mask,
                    events,
                    finish,
                }
            },
        )
        .boxed()
}

// ---------------------------------------------------------------------------------------------
// world
// ---------------------------------------------------------------------------------------------

/// heights a case may touch beyond the first expected one
const MAX_HEIGHTS: u64 = 24;

struct Blocks {
    data_mask: u32,
    built: BTreeMap<u64, (FilteredSequencerBlock, ReconstructedBlockView)>,
    height_of_hash: HashMap<String, u64>,
}

impl Blocks {
    fn block_hash(height: u64) -> [u8; 32] {
        chain::synthetic_hash(b"c10-sequencer-block", height, 0)
    }

    fn hash_string(height: u64) -> String {
        // the form conductor sends in `ExecuteBlockRequest.sequencer_block_hash`
        astria_core::sequencerblock::v1::block::Hash::new(Self::block_hash(height)).to_string()
    }

    fn ensure(&mut self, height: u64) {
        if self.built.contains_key(&height) {
            return;
        }
        let has_data = self.data_mask & (1 << (height % 32)) != 0;
        let mut data = vec![(chain::rollup_id(1), vec![height as u8, 1])];
        if has_data {
            data.push((chain::rollup_id(0), vec![height as u8, 7]));
            data.push((chain::rollup_id(0), vec![]));
        }
        let block = chain::make_block(CHAIN_ID, height as u32, Self::block_hash(height), data);
        let transactions = block
            .rollup_transactions()
            .get(&chain::rollup_id(0))
            .map(|t| t.transactions().to_vec())
            .unwrap_or_default();
        let firm = ReconstructedBlockView {
            celestia_height: 100 + height,
            block_hash: *block.block_hash(),
            height,
            header: block.header().clone(),
            transactions,
            extended_commit_info: None,
        };
        let soft = block.into_filtered_block([chain::rollup_id(0)]);
        self.height_of_hash.insert(Self::hash_string(height), height);
        self.built.insert(height, (soft, firm));
    }

    fn soft(&mut self, height: u64) -> FilteredSequencerBlock {
        self.ensure(height);
        self.built[&height].0.clone()
    }

    fn firm(&mut self, height: u64) -> ReconstructedBlockView {
        self.ensure(height);
        self.built[&height].1.clone()
    }
}

/// The parts of a reader that face the executor: a sequential cache in front of a bounded channel.
struct Reader<B> {
    /// heights currently in the real cache (mirror, to resolve `Which`)
    in_cache: BTreeSet<u64>,
    /// the block the reader could not hand over because the channel was full
    enqueued: Option<(u64, B)>,
    /// heights in the executor's channel, oldest first; `true`: injected past the cache
    channel: VecDeque<(u64, bool)>,
}

impl<B> Reader<B> {
    fn new() -> Self {
        Self {
            in_cache: BTreeSet::new(),
            enqueued: None,
            channel: VecDeque::new(),
        }
    }

    /// Resolves `which` against the cache's next height. `None`: not applicable.
    fn resolve(&self, which: Which, next_to_pop: u64, first: u64) -> Option<u64> {
        let next_missing = (next_to_pop..).find(|h| !self.in_cache.contains(h))?;
        let height = match which {
            Which::Next => next_missing,
            Which::Ahead(k) => next_missing + u64::from(k),
            Which::Dup(sel) => {
                let present: Vec<u64> = self.in_cache.iter().copied().collect();
                if present.is_empty() {
                    return None;
                }
                present[pick_index(sel, present.len())]
            }
            Which::Stale(sel) => {
                let depth = next_to_pop.saturating_sub(1).min(3);
                if depth == 0 {
                    return None;
                }
                next_to_pop - 1 - pick_index(sel, depth as usize) as u64
            }
        };
        (height >= 1 && height <= first + MAX_HEIGHTS).then_some(height)
    }
}

struct Offsets {
    sequencer_start: u64,
    rollup_start: u64,
}

impl Offsets {
    /// rollup block number -> Sequencer height (the documented mapping of the execution API)
    fn height_of_number(&self, number: u64) -> u64 {
        self.sequencer_start + number - self.rollup_start
    }

    fn number_of_height(&self, height: u64) -> u64 {
        height - self.sequencer_start + self.rollup_start
    }
}

fn pre_session_hash(number: u64) -> String {
    hex::encode(chain::synthetic_hash(b"c10-pre-session-block", number, 0))
}

// ---------------------------------------------------------------------------------------------
// log oracle
// ---------------------------------------------------------------------------------------------

struct LogChecker {
    offsets: Offsets,
    /// next Sequencer height that may be executed
    expected_height: u64,
    /// hash of the block executed for `expected_height - 1`
    head_hash: String,
    firm_number: u64,
    firm_hash: String,
    soft_number: u64,
    checked: usize,
    executed: u64,
}

/// What the executor was doing while the log entries were produced.
#[derive(Clone, Copy, Debug)]
enum Context {
    /// processing the soft block of this height
    Soft(u64),
    /// processing the firm block of this height
    Firm(u64),
    /// the real event loop ran on its own
    Unattended,
}

impl LogChecker {
    /// Checks the log entries that were appended since the last call.
    fn check_new(
        &mut self,
        rollup: &fake_rollup::RollupState,
        blocks: &Blocks,
        context: Context,
    ) -> Result<(), Failure> {
        let new = &rollup.log[self.checked..];
        self.checked = rollup.log.len();
        for rpc in new {
            match rpc {
                Rpc::CreateSession => {
                    vfail!("unexpected-create-session", "CreateExecutionSession called again during the session");
                }
                Rpc::GetBlock {
                    ..
                } => {}
                Rpc::Execute {
                    parent_hash,
                    sequencer_block_hash,
                    result,
                    ..
                } => {
                    let Some(height) = blocks.height_of_hash.get(sequencer_block_hash).copied() else {
                        vfail!(
                            "execute-unknown-block",
                            "ExecuteBlock for sequencer block hash {sequencer_block_hash} that no reader delivered"
                        );
                    };
                    match context {
                        Context::Soft(h) | Context::Firm(h) => vensure!(
                            h == height,
                            "execute-other-block",
                            "ExecuteBlock for height {height} while the executor processed the block of height {h}"
                        ),
                        Context::Unattended => {}
                    }
                    vensure!(
                        height >= self.expected_height,
                        "duplicate-execute",
                        "ExecuteBlock for Sequencer height {height}, but heights up to {} were already executed",
                        self.expected_height - 1
                    );
                    vensure!(
                        height == self.expected_height,
                        "skipped-height",
                        "ExecuteBlock for Sequencer height {height}, but height {} was not executed yet",
                        self.expected_height
                    );
                    vensure!(
                        *parent_hash == self.head_hash,
                        "wrong-parent",
                        "ExecuteBlock for height {height} on parent {parent_hash}, but the block executed for \
                         height {} is {}",
                        height - 1,
                        self.head_hash
                    );
                    let Some(record) = result else {
                        vfail!(
                            "execute-rejected",
                            "the rollup rejected ExecuteBlock for height {height} (parent {parent_hash})"
                        );
                    };
                    vensure!(
                        record.number == self.offsets.number_of_height(height),
                        "wrong-block-number",
                        "height {height} was executed as rollup block {} instead of {}",
                        record.number,
                        self.offsets.number_of_height(height)
                    );
                    self.head_hash.clone_from(&record.hash);
                    self.expected_height += 1;
                    self.executed += 1;
                }
                Rpc::Update {
                    session_ok,
                    firm_number,
                    firm_hash,
                    soft_number,
                    soft_hash,
                    ..
                } => {
                    vensure!(*session_ok, "wrong-session", "UpdateCommitmentState with an unknown session id");
                    vensure!(
                        *firm_number >= self.firm_number,
                        "firm-decreased",
                        "firm commitment went from block {} to {firm_number}",
                        self.firm_number
                    );
                    vensure!(
                        *soft_number >= self.soft_number,
                        "soft-decreased",
                        "soft commitment went from block {} to {soft_number}",
                        self.soft_number
                    );
                    vensure!(
                        firm_number <= soft_number,
                        "firm-exceeds-soft",
                        "commitment update with firm {firm_number} > soft {soft_number}"
                    );
                    for (kind, number, hash) in [("firm", firm_number, firm_hash), ("soft", soft_number, soft_hash)] {
                        let Some(record) = rollup.blocks.get(hash) else {
                            vfail!(
                                "commitment-names-unknown-block",
                                "{kind} commitment names block {hash} that the rollup never executed"
                            );
                        };
                        vensure!(
                            record.number == *number,
                            "commitment-number-mismatch",
                            "{kind} commitment names block {hash} as number {number}, but it is block {}",
                            record.number
                        );
                        self.check_block_height(kind, record, blocks)?;
                    }
                    let firm_changed = *firm_hash != self.firm_hash;
                    match context {
                        Context::Soft(h) => vensure!(
                            !firm_changed,
                            "firm-moved-by-soft-block",
                            "the firm commitment changed while the soft block of height {h} was processed"
                        ),
                        Context::Firm(h) => {
                            let record = &rollup.blocks[firm_hash];
                            vensure!(
                                record.sequencer_block_hash == Blocks::hash_string(h),
                                "firm-names-block-of-other-height",
                                "processing the firm block of Sequencer height {h} committed rollup block {} \
                                 ({firm_hash}) which was executed from sequencer block {}",
                                record.number,
                                record.sequencer_block_hash
                            );
                        }
                        Context::Unattended => {}
                    }
                    self.firm_number = *firm_number;
                    self.firm_hash.clone_from(firm_hash);
                    self.soft_number = *soft_number;
                }
            }
        }
        Ok(())
    }

    /// A committed block must have been executed from the Sequencer height its number maps to.
    fn check_block_height(&self, kind: &str, record: &BlockRecord, blocks: &Blocks) -> Result<(), Failure> {
        if record.number < self.offsets.rollup_start {
            // the block before the first one derived from Sequencer
            return Ok(());
        }
        let height = self.offsets.height_of_number(record.number);
        vensure!(
            record.sequencer_block_hash == Blocks::hash_string(height),
            "commitment-names-block-of-other-height",
            "{kind} commitment names rollup block {} which maps to Sequencer height {height}, but the block \
             was executed from sequencer block {} (height {:?})",
            record.number,
            record.sequencer_block_hash,
            blocks.height_of_hash.get(&record.sequencer_block_hash)
        );
        Ok(())
    }
}

// ---------------------------------------------------------------------------------------------
// interpreter
// ---------------------------------------------------------------------------------------------

struct Run {
    mode: Mode,
    first_height: u64,
    blocks: Blocks,
    rollup: Arc<Mutex<fake_rollup::RollupState>>,
    checker: LogChecker,
    soft_cache: Option<SoftBlockCache>,
    firm_cache: Option<FirmBlockCache>,
    soft: Reader<FilteredSequencerBlock>,
    firm: Reader<ReconstructedBlockView>,
    /// an injected firm delivery makes later firm errors expected (the reader's own copy of that
    /// height still arrives)
    firm_stream_tainted: bool,
    exited: Option<String>,
    // non-triviality
    soft_led_by_two: bool,
    firm_reached_soft: bool,
    firm_overtook_soft: bool,
    irregular_deliveries: u32,
}

fn label_insert(ctx: &mut Ctx, stream: &str, which: Which, outcome: CacheInsert) {
    let which = match which {
        Which::Next => "next",
        Which::Dup(_) => "dup",
        Which::Stale(_) => "stale",
        Which::Ahead(_) => "ahead",
    };
    ctx.label(format!("{stream}-arrive:{which}:{outcome:?}"));
}

impl Run {
    fn soft_arrive(&mut self, which: Which, ctx: &mut Ctx) {
        let Some(cache) = self.soft_cache.as_mut() else {
            ctx.label("noop:no-soft-reader");
            return;
        };
        let Some(height) = self.soft.resolve(which, cache.next_height_to_pop(), self.first_height) else {
            ctx.label("noop:soft-arrive-not-applicable");
            return;
        };
        let outcome = cache.insert(self.blocks.soft(height));
        if outcome == CacheInsert::Inserted {
            self.soft.in_cache.insert(height);
        }
        if which != Which::Next {
            self.irregular_deliveries += 1;
        }
        label_insert(ctx, "soft", which, outcome);
    }

    fn firm_arrive(&mut self, which: Which, ctx: &mut Ctx) {
        let Some(cache) = self.firm_cache.as_mut() else {
            ctx.label("noop:no-firm-reader");
            return;
        };
        let Some(height) = self.firm.resolve(which, cache.next_height_to_pop(), self.first_height) else {
            ctx.label("noop:firm-arrive-not-applicable");
            return;
        };
        let outcome = cache.insert(self.blocks.firm(height));
        if outcome == CacheInsert::Inserted {
            self.firm.in_cache.insert(height);
        }
        if which != Which::Next {
            self.irregular_deliveries += 1;
        }
        label_insert(ctx, "firm", which, outcome);
    }

    /// One iteration of the Sequencer reader's loop as far as it concerns the executor: an
    /// enqueued block first; then (if it has seen the state change) `drop_obsolete`; then the next
    /// block of the cache goes to the executor (`try_send`, enqueue if full).
    fn soft_forward(&mut self, sync: bool, executor: &Executor, ctx: &mut Ctx) {
        let Some(cache) = self.soft_cache.as_mut() else {
            ctx.label("noop:no-soft-reader");
            return;
        };
        if let Some((height, block)) = self.soft.enqueued.take() {
            match executor.forward_soft(block.clone()) {
                Ok(Forward::Sent) => {
                    self.soft.channel.push_back((height, false));
                    ctx.label("soft-forward:enqueued-sent");
                }
                _ => self.soft.enqueued = Some((height, block)),
            }
            return;
        }
        if sync {
            let (_, next_soft) = executor.next_expected_heights_seen_by_readers();
            cache.drop_obsolete(next_soft);
            self.soft.in_cache.retain(|h| *h >= next_soft);
        }
        let next = cache.next_height_to_pop();
        let Some(block) = cache.pop() else {
            ctx.label("noop:soft-cache-has-no-next");
            return;
        };
        self.soft.in_cache.remove(&next);
        match executor.forward_soft(block.clone()) {
            Ok(Forward::Sent) => {
                self.soft.channel.push_back((next, false));
                ctx.label("soft-forward:sent");
            }
            _ => {
                ctx.label("soft-forward:channel-full");
                self.soft.enqueued = Some((next, block));
            }
        }
    }

    fn firm_forward(&mut self, executor: &Executor, ctx: &mut Ctx) {
        let Some(cache) = self.firm_cache.as_mut() else {
            ctx.label("noop:no-firm-reader");
            return;
        };
        if let Some((height, block)) = self.firm.enqueued.take() {
            match executor.forward_firm(block.clone()) {
                Ok(Forward::Sent) => {
                    self.firm.channel.push_back((height, false));
                    ctx.label("firm-forward:enqueued-sent");
                }
                _ => self.firm.enqueued = Some((height, block)),
            }
            return;
        }
        let next = cache.next_height_to_pop();
        let Some(block) = cache.pop() else {
            ctx.label("noop:firm-cache-has-no-next");
            return;
        };
        self.firm.in_cache.remove(&next);
        match executor.forward_firm(block.clone()) {
            Ok(Forward::Sent) => {
                self.firm.channel.push_back((next, false));
                ctx.label("firm-forward:sent");
            }
            _ => {
                ctx.label("firm-forward:channel-full");
                self.firm.enqueued = Some((next, block));
            }
        }
    }

    /// Resolves an injected delivery relative to what the *executor* expects next.
    fn injected_height(&self, which: Which, expected: u64) -> Option<u64> {
        let height = match which {
            Which::Next | Which::Dup(_) => expected,
            Which::Ahead(k) => expected + u64::from(k),
            Which::Stale(sel) => {
                let depth = expected.saturating_sub(1).min(3);
                if depth == 0 {
                    return None;
                }
                expected - 1 - pick_index(sel, depth as usize) as u64
            }
        };
        (height >= 1 && height <= self.first_height + MAX_HEIGHTS + 4).then_some(height)
    }

    fn inject_soft(&mut self, which: Which, executor: &Executor, ctx: &mut Ctx) {
        if !self.mode.with_soft() {
            ctx.label("noop:no-soft-reader");
            return;
        }
        let expected = executor.state().next_expected_soft_sequencer_height;
        let Some(height) = self.injected_height(which, expected) else {
            ctx.label("noop:inject-not-applicable");
            return;
        };
        match executor.forward_soft(self.blocks.soft(height)) {
            Ok(Forward::Sent) => {
                self.soft.channel.push_back((height, true));
                self.irregular_deliveries += 1;
                ctx.label(format!("inject-soft:{}", height.cmp(&expected) as i8));
            }
            _ => ctx.label("noop:inject-channel-full"),
        }
    }

    fn inject_firm(&mut self, which: Which, executor: &Executor, ctx: &mut Ctx) {
        if !self.mode.with_firm() {
            ctx.label("noop:no-firm-reader");
            return;
        }
        let expected = executor.state().next_expected_firm_sequencer_height;
        let Some(height) = self.injected_height(which, expected) else {
            ctx.label("noop:inject-not-applicable");
            return;
        };
        match executor.forward_firm(self.blocks.firm(height)) {
            Ok(Forward::Sent) => {
                self.firm.channel.push_back((height, true));
                self.firm_stream_tainted = true;
                self.irregular_deliveries += 1;
                ctx.label(format!("inject-firm:{}", height.cmp(&expected) as i8));
            }
            _ => ctx.label("noop:inject-channel-full"),
        }
    }

    fn observe(&mut self, executor: &Executor) {
        if self.mode == Mode::SoftAndFirm {
            let state = executor.state();
            if state.next_expected_soft_sequencer_height >= state.next_expected_firm_sequencer_height + 2 {
                self.soft_led_by_two = true;
            }
        }
    }

    fn observe_after_firm_step(&mut self, executor: &Executor) {
        if self.mode == Mode::SoftAndFirm {
            let state = executor.state();
            if state.next_expected_firm_sequencer_height >= state.next_expected_soft_sequencer_height {
                self.firm_reached_soft = true;
            }
        }
    }

    /// One executor loop iteration + the per-step oracle. `Ok(false)`: nothing was received.
    async fn step(&mut self, executor: &mut Executor, ctx: &mut Ctx) -> Result<bool, Failure> {
        let before = executor.state();
        let outcome = executor.step().await;
        let (context, result, injected, stream) = match outcome {
            Step::Idle {
                soft_disabled,
            } => {
                if soft_disabled && !self.soft.channel.is_empty() {
                    ctx.label("step:soft-held-back-by-spread");
                } else {
                    ctx.label("step:idle");
                }
                return Ok(false);
            }
            Step::Firm(result) => {
                let (height, injected) = self
                    .firm
                    .channel
                    .pop_front()
                    .expect("the executor received a firm block, so the mirror queue is not empty");
                if before.next_expected_firm_sequencer_height >= before.next_expected_soft_sequencer_height
                    && self.mode == Mode::SoftAndFirm
                {
                    self.firm_overtook_soft = true;
                }
                (Context::Firm(height), result, injected, "firm")
            }
            Step::Soft(result) => {
                let (height, injected) = self
                    .soft
                    .channel
                    .pop_front()
                    .expect("the executor received a soft block, so the mirror queue is not empty");
                (Context::Soft(height), result, injected, "soft")
            }
        };
        {
            let rollup = self.rollup.lock().unwrap();
            self.checker.check_new(&rollup, &self.blocks, context)?;
        }
        self.observe(executor);
        if stream == "firm" && result.is_ok() {
            self.observe_after_firm_step(executor);
        }
        match result {
            Ok(()) => {
                ctx.label(format!("step:{stream}:ok"));
            }
            Err(error) => {
                let expected = injected || (stream == "firm" && self.firm_stream_tainted);
                vensure!(
                    expected,
                    "executor-error-on-legal-stream",
                    "the executor failed on a block its {stream} reader delivered in order ({context:?}): {error}"
                );
                ctx.label(format!("step:{stream}:rejected-injected"));
                self.exited = Some(error);
            }
        }
        Ok(true)
    }
}

fn case_test(case: &Case, ctx: &mut Ctx) -> CaseResult {
    let runtime = tokio::runtime::Builder::new_current_thread()
        .enable_all()
        .start_paused(true)
        .build()
        .expect("tokio runtime");
    runtime.block_on(run_case(case, ctx))
}

async fn run_case(case: &Case, ctx: &mut Ctx) -> CaseResult {
    let mode = case.mode;
    ctx.label(format!("mode:{mode:?}"));
    let offsets = Offsets {
        sequencer_start: u64::from(case.sequencer_start.clamp(1, 40)),
        rollup_start: u64::from(case.rollup_start.min(40)),
    };
    // numbers: the rollup may report the block before its first Sequencer-derived block
    let lowest_number = offsets.rollup_start.saturating_sub(1);
    let firm_number = lowest_number + u64::from(case.firm_offset.min(3));
    let soft_number = firm_number + u64::from(case.soft_lead.min(3));
    if soft_number > firm_number {
        ctx.label(if mode == Mode::FirmOnly {
            "session:firm-only-with-soft-ahead"
        } else {
            "session:soft-ahead-of-firm"
        });
    }
    let look_ahead = u64::from(case.look_ahead.clamp(1, 8));

    // --- the fake rollup with its pre-session chain
    // (a deterministic rollup: re-executing a sequencer block on the same parent yields the same
    // block, so the chain above the lowest block uses the same hash function as `ExecuteBlock`)
    let mut rollup_blocks = HashMap::new();
    let mut by_number: BTreeMap<u64, BlockRecord> = BTreeMap::new();
    for number in lowest_number..=soft_number {
        let record = match by_number.get(&number.wrapping_sub(1)) {
            Some(parent) if number >= offsets.rollup_start => {
                let sequencer_block_hash = Blocks::hash_string(offsets.height_of_number(number));
                BlockRecord {
                    number,
                    hash: fake_rollup::child_hash(&parent.hash, &sequencer_block_hash),
                    parent_hash: parent.hash.clone(),
                    sequencer_block_hash,
                    in_session: false,
                }
            }
            _ => BlockRecord {
                number,
                hash: pre_session_hash(number),
                parent_hash: pre_session_hash(number.wrapping_sub(1)),
                sequencer_block_hash: if number >= offsets.rollup_start {
                    Blocks::hash_string(offsets.height_of_number(number))
                } else {
                    String::new()
                },
                in_session: false,
            },
        };
        by_number.insert(number, record.clone());
        rollup_blocks.insert(record.hash.clone(), record);
    }
    let firm_record = by_number[&firm_number].clone();
    let soft_record = by_number[&soft_number].clone();
    let rollup = Arc::new(Mutex::new(fake_rollup::RollupState {
        session_id: "verif-c10-session".to_string(),
        parameters: raw_exec::ExecutionSessionParameters {
            rollup_id: Some(chain::rollup_id(0).into_raw()),
            rollup_start_block_number: offsets.rollup_start,
            rollup_end_block_number: 0,
            sequencer_chain_id: CHAIN_ID.to_string(),
            sequencer_start_block_height: offsets.sequencer_start,
            celestia_chain_id: "verif-celestia".to_string(),
            celestia_search_height_max_look_ahead: look_ahead,
        },
        blocks: rollup_blocks,
        firm: fake_rollup::metadata(&firm_record),
        soft: fake_rollup::metadata(&soft_record),
        lowest_celestia_search_height: 1,
        log: Vec::new(),
    }));
    let url = fake_rollup::serve(FakeRollup(rollup.clone())).await;

    // --- the real executor
    let mut executor = match Executor::init(&url, mode.commit_level()).await {
        Ok(executor) => executor,
        Err(error) => vfail!("init-failed", "executor initialization failed on a valid session: {error}"),
    };
    let initial = executor.state();
    let next_firm = offsets.height_of_number(firm_number) + 1;
    let next_soft = offsets.height_of_number(soft_number) + 1;
    vensure!(
        initial.next_expected_firm_sequencer_height == next_firm
            && initial.next_expected_soft_sequencer_height == next_soft,
        "wrong-initial-heights",
        "session (firm {firm_number}, soft {soft_number}) maps to next heights firm {next_firm} / soft \
         {next_soft}, but the executor expects {} / {}",
        initial.next_expected_firm_sequencer_height,
        initial.next_expected_soft_sequencer_height
    );
    let first_height = if mode == Mode::FirmOnly { next_firm } else { next_soft };
    let head_hash = if mode == Mode::FirmOnly {
        firm_record.hash.clone()
    } else {
        soft_record.hash.clone()
    };
    let mut run = Run {
        mode,
        first_height: next_firm.min(next_soft),
        blocks: Blocks {
            data_mask: case.data_mask,
            built: BTreeMap::new(),
            height_of_hash: HashMap::new(),
        },
        rollup: rollup.clone(),
        checker: LogChecker {
            offsets,
            expected_height: first_height,
            head_hash,
            firm_number,
            firm_hash: firm_record.hash.clone(),
            // in firm-only mode conductor drives soft = firm: the soft number the rollup reported
            // at session start is not a baseline there (see the assumptions)
            soft_number: if mode == Mode::FirmOnly { firm_number } else { soft_number },
            checked: 1, // CreateExecutionSession
            executed: 0,
        },
        soft_cache: mode
            .with_soft()
            .then(|| SoftBlockCache::with_next_height(next_soft).expect("height >= 1")),
        firm_cache: mode
            .with_firm()
            .then(|| FirmBlockCache::with_next_height(next_firm).expect("height >= 1")),
        soft: Reader::new(),
        firm: Reader::new(),
        firm_stream_tainted: false,
        exited: None,
        soft_led_by_two: false,
        firm_reached_soft: false,
        firm_overtook_soft: false,
        irregular_deliveries: 0,
    };
    // the pre-session blocks' sequencer hashes must be known to the log oracle
    for number in lowest_number..=soft_number {
        if number >= run.checker.offsets.rollup_start {
            let height = run.checker.offsets.height_of_number(number);
            run.blocks.ensure(height);
        }
    }
    run.observe(&executor);

    for ev in case.events.iter().take(80) {
        if run.exited.is_some() {
            ctx.label("noop:after-exit");
            break;
        }
        match *ev {
            Ev::Soft {
                which,
                sync,
                forward,
            } => {
                run.soft_arrive(which, ctx);
                if forward {
                    run.soft_forward(sync, &executor, ctx);
                }
            }
            Ev::Firm {
                which,
                forward,
            } => {
                run.firm_arrive(which, ctx);
                if forward {
                    run.firm_forward(&executor, ctx);
                }
            }
            Ev::SoftForward {
                sync,
            } => run.soft_forward(sync, &executor, ctx),
            Ev::FirmForward => run.firm_forward(&executor, ctx),
            Ev::Step(n) => {
                for _ in 0..n.clamp(1, 3) {
                    if run.exited.is_some() || !run.step(&mut executor, ctx).await? {
                        break;
                    }
                }
            }
            Ev::SoftBurst(n) => {
                for _ in 0..n.clamp(1, 4) {
                    if run.exited.is_some() {
                        break;
                    }
                    run.soft_arrive(Which::Next, ctx);
                    run.soft_forward(true, &executor, ctx);
                    run.step(&mut executor, ctx).await?;
                }
            }
            Ev::FirmBurst(n) => {
                for _ in 0..n.clamp(1, 4) {
                    if run.exited.is_some() {
                        break;
                    }
                    run.firm_arrive(Which::Next, ctx);
                    run.firm_forward(&executor, ctx);
                    run.step(&mut executor, ctx).await?;
                }
            }
            Ev::InjectSoft(which) => run.inject_soft(which, &executor, ctx),
            Ev::InjectFirm(which) => run.inject_firm(which, &executor, ctx),
        }
    }

    match (case.finish, run.exited.is_some()) {
        (Finish::Stop, _) | (_, true) => ctx.label("finish:stop"),
        (Finish::DrainSteps, false) => {
            ctx.label("finish:drain-steps");
            for _ in 0..400 {
                run.soft_forward(true, &executor, ctx);
                run.firm_forward(&executor, ctx);
                let moved = run.step(&mut executor, ctx).await?;
                let idle = !moved
                    && run.soft.enqueued.is_none()
                    && run.firm.enqueued.is_none()
                    && run.soft_cache.as_ref().is_none_or(|c| !run.soft.in_cache.contains(&c.next_height_to_pop()))
                    && run.firm_cache.as_ref().is_none_or(|c| !run.firm.in_cache.contains(&c.next_height_to_pop()));
                if run.exited.is_some() || idle {
                    break;
                }
            }
        }
        (Finish::RealLoop, false) => {
            ctx.label("finish:real-loop");
            run.soft_forward(true, &executor, ctx);
            run.firm_forward(&executor, ctx);
            let injected_pending = run.soft.channel.iter().chain(run.firm.channel.iter()).any(|(_, i)| *i)
                || run.firm_stream_tainted;
            let (result, _pending) = executor.run_real_event_loop_to_completion().await;
            {
                let rollup = run.rollup.lock().unwrap();
                run.checker.check_new(&rollup, &run.blocks, Context::Unattended)?;
            }
            if let Err(error) = result {
                vensure!(
                    injected_pending,
                    "executor-error-on-legal-stream",
                    "the real event loop failed on blocks its readers delivered in order: {error}"
                );
                ctx.label("real-loop:rejected-injected");
            } else {
                ctx.label("real-loop:ok");
            }
        }
    }

    // --- final pass over the whole log (nothing may have been appended unobserved)
    {
        let rollup = run.rollup.lock().unwrap();
        run.checker.check_new(&rollup, &run.blocks, Context::Unattended)?;
    }
    ctx.note("executed_blocks", run.checker.executed);
    ctx.note("irregular_deliveries", run.irregular_deliveries);
    match run.checker.executed {
        0 => ctx.label("executed:0"),
        1..=2 => ctx.label("executed:1-2"),
        3..=7 => ctx.label("executed:3-7"),
        _ => ctx.label("executed:8+"),
    }
    let nontrivial = match mode {
        Mode::SoftAndFirm => run.soft_led_by_two && run.firm_reached_soft,
        Mode::SoftOnly | Mode::FirmOnly => run.checker.executed >= 3 && run.irregular_deliveries >= 1,
    };
    if run.soft_led_by_two {
        ctx.label("soft-led-by-2");
    }
    if run.firm_reached_soft {
        ctx.label("firm-reached-soft");
    }
    if run.firm_overtook_soft {
        ctx.label("firm-executed-ahead-of-soft");
    }
    ctx.set_nontrivial(nontrivial);
    Ok(())
}

pub fn run(args: &[String]) -> ! {
    let mut s = Session::from_args("C10", "exploration", args);
    s.assume(
        "the readers are played by the harness: real BlockCaches in front of the executor's channels, \
         blocks leave a cache only in sequence (one per reader loop iteration, enqueued while the channel \
         is full), the Sequencer reader applies drop_obsolete whenever it has seen the executor's state; \
         interleavings inside one execute_soft / execute_firm call are not enumerated",
    );
    s.assume(
        "the rollup is well behaved (deterministic ExecuteBlock on a known parent, echoes commitment \
         updates); soft and firm deliver the same block for a height; in firm-only mode conductor \
         defines soft := firm, so a soft commitment that the rollup reports ahead of firm at session \
         start is not used as the baseline of 'never decreases' (class session:firm-only-with-soft-ahead)",
    );
    s.assume(
        "an executor error is a violation only on deliveries that went through the caches; deliveries \
         injected past a cache may (and if out of order must) make it stop instead of executing them",
    );
    s.run_prop(Prop {
        name: "executor_schedules",
        rule: "commit level (soft-and-firm 60%, soft-only, firm-only), session offsets (sequencer start \
               1..40, rollup start 0..40, firm 0..3 above the lowest number, soft 0..3 above firm, \
               look-ahead 1..8), 1-5 phases of 2-16 events over {soft/firm arrival (next | dup | stale | \
               ahead) at the reader caches, reader loop iterations, executor steps, injections past the \
               caches}, then stop / drain by steps / drain by the real run_event_loop. Non-trivial: \
               soft-and-firm schedule in which soft leads firm by >= 2 heights at least once and firm \
               catches up with (or overtakes) soft at least once; for the single-stream modes \
               >= 3 executed blocks and >= 1 dup / stale / ahead / injected delivery",
        cases_quick: 30_000,
        cases_thorough: 300_000,
        shards: 12,
        min_nontrivial: 0.3,
        max_shrink_iters: 600,
        strategy: Box::new(case),
        test: Box::new(case_test),
    });
    s.finish()
}
