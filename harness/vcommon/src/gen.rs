//! Small generator helpers shared by all checks.

use proptest::prelude::*;

/// Maps a 16-bit selector monotonically onto `0..len` (so shrinking the selector shrinks the
/// index; `%` would make shrinking stall).
pub fn pick_index(selector: u16, len: usize) -> usize {
    if len == 0 {
        return 0;
    }
    ((selector as usize) * len) >> 16
}

pub fn pick<T: Clone>(selector: u16, items: &[T]) -> T {
    items[pick_index(selector, items.len())].clone()
}

/// Boundary-biased `u128`: `{0, 1, small, ~2^64, 2^127, MAX-1, MAX}` plus uniform.
pub fn amount_u128() -> BoxedStrategy<u128> {
    prop_oneof![
        2 => Just(0_u128),
        2 => Just(1_u128),
        10 => 0_u128..1000,
        6 => 1000_u128..1_000_000_000,
        3 => (u64::MAX as u128 - 5)..(u64::MAX as u128 + 5),
        2 => Just(1_u128 << 127),
        2 => Just(u128::MAX - 1),
        2 => Just(u128::MAX),
        2 => any::<u128>(),
    ]
    .boxed()
}

/// Byte strings from empty up to `max` bytes, biased to short ones.
pub fn bytes(max: usize) -> BoxedStrategy<Vec<u8>> {
    prop_oneof![
        3 => Just(Vec::new()),
        10 => proptest::collection::vec(any::<u8>(), 0..=max.min(8)),
        6 => proptest::collection::vec(any::<u8>(), 0..=max.min(64)),
        2 => proptest::collection::vec(any::<u8>(), 0..=max),
    ]
    .boxed()
}

pub fn hex_serde_bytes(max: usize) -> BoxedStrategy<HexBytes> {
    bytes(max).prop_map(HexBytes).boxed()
}

/// A byte vector that serialises as a hex string (keeps replay files readable).
#[derive(Clone, PartialEq, Eq, Hash, Default)]
pub struct HexBytes(pub Vec<u8>);

impl std::fmt::Debug for HexBytes {
    fn fmt(&self, f: &mut std::fmt::Formatter<'_>) -> std::fmt::Result {
        write!(f, "0x{}", hex::encode(&self.0))
    }
}

impl serde::Serialize for HexBytes {
    fn serialize<S: serde::Serializer>(&self, s: S) -> Result<S::Ok, S::Error> {
        s.serialize_str(&hex::encode(&self.0))
    }
}

impl<'de> serde::Deserialize<'de> for HexBytes {
    fn deserialize<D: serde::Deserializer<'de>>(d: D) -> Result<Self, D::Error> {
        let text = String::deserialize(d)?;
        hex::decode(&text)
            .map(HexBytes)
            .map_err(serde::de::Error::custom)
    }
}

/// `u128` that serialises as a decimal string (JSON numbers cannot hold it).
#[derive(Clone, Copy, PartialEq, Eq, Hash, PartialOrd, Ord, Default)]
pub struct U128(pub u128);

impl std::fmt::Debug for U128 {
    fn fmt(&self, f: &mut std::fmt::Formatter<'_>) -> std::fmt::Result {
        write!(f, "{}", self.0)
    }
}

impl serde::Serialize for U128 {
    fn serialize<S: serde::Serializer>(&self, s: S) -> Result<S::Ok, S::Error> {
        s.serialize_str(&self.0.to_string())
    }
}

impl<'de> serde::Deserialize<'de> for U128 {
    fn deserialize<D: serde::Deserializer<'de>>(d: D) -> Result<Self, D::Error> {
        let text = String::deserialize(d)?;
        text.parse().map(U128).map_err(serde::de::Error::custom)
    }
}
