//! Driver for a coverage-guided libFuzzer campaign (`cargo fuzz run -s none`, stable toolchain)
//! against a target of the `/verif/fuzz` crate. The target contains the semantic oracle; this
//! module only builds, seeds, runs under a wall-clock budget and collects what the engine
//! reports. A budget hit is the normal end of a campaign; only `crash-*` artifacts count, and
//! the caller re-executes them through its own oracle before reporting anything.

use std::{
    path::PathBuf,
    process::{
        Command,
        Stdio,
    },
    time::Instant,
};

use crate::verif_root;

pub struct Campaign<'a> {
    /// name of the `[[bin]]` in `/verif/fuzz/Cargo.toml`
    pub target: &'a str,
    /// inputs written to the corpus directory before the run (honest encodings, saved cases)
    pub seeds: Vec<Vec<u8>>,
    pub max_len: usize,
    /// wall-clock budget in seconds unless `VERIF_FUZZ_SECS` overrides it
    pub default_secs: u64,
    pub workers: usize,
}

#[derive(Default, Debug)]
pub struct Outcome {
    /// `Some(reason)` when the engine could not be built or started: the campaign says nothing
    pub unavailable: Option<String>,
    pub executions: u64,
    pub coverage_edges: u64,
    pub features: u64,
    pub corpus_files: u64,
    pub seeds_written: u64,
    pub wall_s: f64,
    /// contents of every `crash-*` artifact the engine saved
    pub crashes: Vec<(PathBuf, Vec<u8>)>,
    /// `timeout-*` / `oom-*` artifacts: resource events, never violations
    pub resource_events: u64,
    pub command: String,
}

fn cargo() -> Command {
    let mut cmd = Command::new("cargo");
    cmd.env("CARGO_NET_OFFLINE", "true")
        .env_remove("CARGO_TARGET_DIR")
        .env("RUSTFLAGS", "--cfg tokio_unstable")
        .env_remove("CARGO_ENCODED_RUSTFLAGS");
    cmd
}

pub fn run(seed: u64, campaign: &Campaign<'_>) -> Outcome {
    let started = Instant::now();
    let root = verif_root();
    let fuzz_dir = root.join("fuzz");
    let target_dir = fuzz_dir.join("target");
    let corpus = fuzz_dir.join("corpus").join(campaign.target);
    let artifacts = root.join("out").join("fuzz-artifacts").join(campaign.target);
    let mut outcome = Outcome::default();
    let _ = std::fs::remove_dir_all(&artifacts);
    if std::fs::create_dir_all(&artifacts).is_err() || std::fs::create_dir_all(&corpus).is_err() {
        outcome.unavailable = Some("cannot create corpus / artifact directories".to_string());
        return outcome;
    }
    for (i, seed_input) in campaign.seeds.iter().enumerate() {
        if std::fs::write(corpus.join(format!("seed-{i:04}")), seed_input).is_ok() {
            outcome.seeds_written += 1;
        }
    }
    // keep the fuzz crate's lock file in step with the repository's
    if !fuzz_dir.join("Cargo.lock").exists() {
        let _ = std::fs::copy(root.join("harness").join("Cargo.lock"), fuzz_dir.join("Cargo.lock"));
    }
    let build = cargo()
        .current_dir(&root)
        .args(["fuzz", "build", "-s", "none", "--fuzz-dir"])
        .arg(&fuzz_dir)
        .arg("--target-dir")
        .arg(&target_dir)
        .arg(campaign.target)
        .stdout(Stdio::null())
        .stderr(Stdio::piped())
        .output();
    match build {
        Ok(out) if out.status.success() => {}
        Ok(out) => {
            let text = String::from_utf8_lossy(&out.stderr);
            let tail: Vec<&str> = text.lines().rev().take(8).collect();
            outcome.unavailable = Some(format!(
                "cargo fuzz build failed: {}",
                tail.into_iter().rev().collect::<Vec<_>>().join(" | ")
            ));
            return outcome;
        }
        Err(error) => {
            outcome.unavailable = Some(format!("cargo fuzz cannot be started: {error}"));
            return outcome;
        }
    }
    let secs = std::env::var("VERIF_FUZZ_SECS")
        .ok()
        .and_then(|s| s.parse::<u64>().ok())
        .unwrap_or(campaign.default_secs);
    // libFuzzer treats -seed=0 as "pick one": remap
    let engine_seed = (seed % 0xffff_fffe) + 1;
    let mut cmd = cargo();
    cmd.current_dir(&root)
        .args(["fuzz", "run", "-s", "none", "--fuzz-dir"])
        .arg(&fuzz_dir)
        .arg("--target-dir")
        .arg(&target_dir)
        .arg(campaign.target)
        .arg(&corpus)
        .arg("--")
        .arg(format!("-max_total_time={secs}"))
        .arg(format!("-seed={engine_seed}"))
        .arg(format!("-fork={}", campaign.workers.max(1)))
        .arg(format!("-max_len={}", campaign.max_len))
        .arg("-len_control=0")
        .arg("-timeout=60")
        .arg("-rss_limit_mb=4096")
        .arg("-ignore_timeouts=1")
        .arg("-ignore_ooms=1")
        .arg(format!("-artifact_prefix={}/", artifacts.display()))
        .stdout(Stdio::null())
        .stderr(Stdio::piped());
    outcome.command = format!("{cmd:?}");
    let output = match cmd.output() {
        Ok(output) => output,
        Err(error) => {
            outcome.unavailable = Some(format!("cargo fuzz run cannot be started: {error}"));
            return outcome;
        }
    };
    // fork mode prints "#<execs>: cov: <edges> ft: <features> corp: <files> exec/s ..." lines
    let text = String::from_utf8_lossy(&output.stderr);
    for line in text.lines() {
        let Some(rest) = line.strip_prefix('#') else {
            continue;
        };
        let Some((execs, tail)) = rest.split_once(':') else {
            continue;
        };
        let Ok(execs) = execs.trim().parse::<u64>() else {
            continue;
        };
        let field = |name: &str| -> Option<u64> {
            let at = tail.find(name)? + name.len();
            tail[at..].split_whitespace().next()?.parse().ok()
        };
        if let (Some(cov), Some(ft), Some(corp)) = (field("cov:"), field("ft:"), field("corp:")) {
            outcome.executions = outcome.executions.max(execs);
            outcome.coverage_edges = outcome.coverage_edges.max(cov);
            outcome.features = outcome.features.max(ft);
            outcome.corpus_files = outcome.corpus_files.max(corp);
        }
    }
    if let Ok(entries) = std::fs::read_dir(&artifacts) {
        let mut paths: Vec<PathBuf> = entries.filter_map(|e| e.ok().map(|e| e.path())).collect();
        paths.sort();
        for path in paths {
            let name = path.file_name().and_then(|n| n.to_str()).unwrap_or_default().to_string();
            if name.starts_with("crash-") {
                if let Ok(bytes) = std::fs::read(&path) {
                    outcome.crashes.push((path, bytes));
                }
            } else if name.starts_with("timeout-") || name.starts_with("oom-") {
                outcome.resource_events += 1;
            }
        }
    }
    if outcome.executions == 0 && outcome.crashes.is_empty() {
        let tail: Vec<&str> = text.lines().rev().take(6).collect();
        outcome.unavailable = Some(format!(
            "the engine reported no executions: {}",
            tail.into_iter().rev().collect::<Vec<_>>().join(" | ")
        ));
    }
    outcome.wall_s = started.elapsed().as_secs_f64();
    outcome
}
