//! Shared machinery for all checks: seed plumbing, sharded proptest runner, classification
//! counters, evidence writer, known-findings matcher, replay (de)serialisation.
//!
//! A *session* decides one property (`C01`..`C18`). It consists of one or more *sub-checks*; each
//! sub-check is either a proptest-driven search (`run_prop`) or an explicit enumeration
//! (`run_enum`). Every executed case is counted, classified and hashed; the first failing case of
//! a proptest search is shrunk by proptest and written as a replay file.
//!
//! Exit codes (see DESIGN.md 2.4): 0 = held on everything explored, 1 = violation (a line
//! `VIOLATION property=<id> replay=<path>` is printed on stdout), 2 = inconclusive.

use std::{
    cell::RefCell,
    collections::{
        BTreeMap,
        HashSet,
    },
    fmt::Debug,
    panic::{
        catch_unwind,
        AssertUnwindSafe,
    },
    path::{
        Path,
        PathBuf,
    },
    sync::{
        atomic::{
            AtomicBool,
            Ordering,
        },
        Arc,
        Mutex,
    },
    time::Instant,
};

use proptest::{
    strategy::{
        BoxedStrategy,
        Strategy,
    },
    test_runner::{
        Config,
        RngAlgorithm,
        TestCaseError,
        TestError,
        TestRng,
        TestRunner,
    },
};
use serde::{
    de::DeserializeOwned,
    Deserialize,
    Serialize,
};
use sha2::{
    Digest as _,
    Sha256,
};

pub use proptest;
pub use serde;
pub use serde_json;

pub mod gen;
pub mod libfuzzer;
pub mod wire;

#[derive(Clone, Copy, Debug, PartialEq, Eq)]
pub enum Tier {
    Quick,
    Thorough,
}

impl Tier {
    pub fn as_str(self) -> &'static str {
        match self {
            Tier::Quick => "quick",
            Tier::Thorough => "thorough",
        }
    }

    /// Picks `q` for the quick tier and `t` for the thorough tier.
    pub fn pick<T>(self, q: T, t: T) -> T {
        match self {
            Tier::Quick => q,
            Tier::Thorough => t,
        }
    }
}

/// A property violation found by an oracle.
#[derive(Clone, Debug, Serialize, Deserialize)]
pub struct Failure {
    /// Canonical description of the failing *shape* (used to match known findings).
    pub signature: String,
    /// Human readable details.
    pub message: String,
}

impl Failure {
    pub fn new(signature: impl Into<String>, message: impl Into<String>) -> Self {
        Self {
            signature: signature.into(),
            message: message.into(),
        }
    }
}

pub type CaseResult = Result<(), Failure>;

#[macro_export]
macro_rules! vfail {
    ($sig:expr, $($arg:tt)*) => {
        return Err($crate::Failure::new($sig, format!($($arg)*)))
    };
}

#[macro_export]
macro_rules! vensure {
    ($cond:expr, $sig:expr, $($arg:tt)*) => {
        if !($cond) {
            return Err($crate::Failure::new($sig, format!($($arg)*)));
        }
    };
}

/// Per-case context handed to the test function.
#[derive(Default)]
pub struct Ctx {
    labels: Vec<String>,
    nontrivial: bool,
    notes: BTreeMap<String, serde_json::Value>,
    replay: bool,
    known: Arc<Vec<String>>,
    tolerated: Vec<String>,
}

impl Ctx {
    /// Adds `label` to the class histogram of this run (once per case and label).
    pub fn label(&mut self, label: impl Into<String>) {
        let label = label.into();
        if !self.labels.contains(&label) {
            self.labels.push(label);
        }
    }

    /// Marks the current case as non-trivial by the sub-check's stated rule.
    pub fn nontrivial(&mut self) {
        self.nontrivial = true;
    }

    pub fn set_nontrivial(&mut self, yes: bool) {
        self.nontrivial = self.nontrivial || yes;
    }

    /// Attaches an observation to the case; it is shown next to the case if it becomes a sample.
    pub fn note(&mut self, key: &str, value: impl Serialize) {
        self.notes.insert(
            key.to_string(),
            serde_json::to_value(value).unwrap_or(serde_json::Value::Null),
        );
    }

    /// True when a single stored case is re-executed (`--replay` or the regression tier).
    pub fn is_replay(&self) -> bool {
        self.replay
    }

    /// For oracles that can keep going after a recorded (status `known`) finding: returns `true`
    /// and counts the hit if `signature` is listed in `known_findings.json`, so the oracle can
    /// exclude that shape and continue checking the rest of the case. Always `false` when a
    /// stored case is replayed, so a replay file of a known finding still reproduces it.
    pub fn tolerate(&mut self, signature: &str) -> bool {
        if self.replay || !self.known.iter().any(|k| k == signature) {
            return false;
        }
        self.tolerated.push(signature.to_string());
        true
    }
}

#[derive(Clone, Debug, Deserialize)]
pub struct KnownFinding {
    pub property: String,
    pub signature: String,
    pub status: String,
    #[serde(default)]
    pub commit: Option<String>,
    pub what: String,
}

#[derive(Debug, Serialize, Deserialize)]
pub struct ReplayFile {
    pub property: String,
    pub sub: String,
    #[serde(default)]
    pub seed: u64,
    #[serde(default)]
    pub signature: String,
    #[serde(default)]
    pub message: String,
    pub case: serde_json::Value,
}

#[derive(Default)]
struct SubStats {
    evaluations: u64,
    nontrivial: u64,
    distinct_nontrivial: HashSet<u64>,
    classes: BTreeMap<String, u64>,
    samples: Vec<serde_json::Value>,
    known_hits: BTreeMap<String, u64>,
    regression_replayed: u64,
    exhaustive: bool,
}

struct SubReport {
    name: String,
    rule: String,
    stats: SubStats,
    floor: f64,
    wall_s: f64,
}

pub type Simplifier<T> = Box<dyn Fn(&T) -> Vec<T> + Send + Sync>;

pub enum Mode {
    Run,
    Replay(PathBuf),
}

pub struct Session {
    pub id: &'static str,
    pub tier: Tier,
    pub seed: u64,
    mode: Mode,
    level: &'static str,
    subs: Vec<SubReport>,
    assumptions: Vec<String>,
    known: Vec<KnownFinding>,
    violations: Vec<(String, PathBuf, Failure)>,
    inconclusive: Vec<String>,
    started: Instant,
    deadline: Option<Instant>,
    extra: BTreeMap<String, serde_json::Value>,
}

pub fn verif_root() -> PathBuf {
    if let Ok(root) = std::env::var("VERIF_ROOT") {
        return PathBuf::from(root);
    }
    Path::new(env!("CARGO_MANIFEST_DIR"))
        .parent()
        .and_then(Path::parent)
        .expect("vcommon lives in <root>/harness/vcommon")
        .to_path_buf()
}

thread_local! {
    static LAST_PANIC: RefCell<Option<(String, String)>> = const { RefCell::new(None) };
    static QUIET_PANICS: RefCell<bool> = const { RefCell::new(false) };
}

/// Installs a panic hook that records `(location, message)` for threads that run test cases and
/// stays quiet there; other threads keep the default behaviour.
pub fn install_panic_hook() {
    let default = std::panic::take_hook();
    std::panic::set_hook(Box::new(move |info| {
        let quiet = QUIET_PANICS.with(|q| *q.borrow());
        let location = info
            .location()
            .map(|l| format!("{}:{}", l.file(), l.line()))
            .unwrap_or_else(|| "<unknown>".to_string());
        let message = if let Some(s) = info.payload().downcast_ref::<&str>() {
            (*s).to_string()
        } else if let Some(s) = info.payload().downcast_ref::<String>() {
            s.clone()
        } else {
            "<non-string panic payload>".to_string()
        };
        if quiet {
            LAST_PANIC.with(|p| *p.borrow_mut() = Some((location, message)));
        } else {
            default(info);
        }
    }));
}

/// Marks the current thread as one whose panics are captured instead of printed.
pub fn quiet_panics(yes: bool) {
    QUIET_PANICS.with(|q| *q.borrow_mut() = yes);
}

/// Takes the last panic recorded on this thread.
pub fn take_last_panic() -> Option<(String, String)> {
    LAST_PANIC.with(|p| p.borrow_mut().take())
}

/// Runs `f`, converting a panic into `Err((location, message))`.
pub fn catch<R>(f: impl FnOnce() -> R) -> Result<R, (String, String)> {
    let was = QUIET_PANICS.with(|q| std::mem::replace(&mut *q.borrow_mut(), true));
    let _ = take_last_panic();
    let result = catch_unwind(AssertUnwindSafe(f));
    QUIET_PANICS.with(|q| *q.borrow_mut() = was);
    result.map_err(|_| {
        take_last_panic().unwrap_or_else(|| ("<unknown>".to_string(), "<unknown>".to_string()))
    })
}

fn strip_repo_prefix(location: &str) -> String {
    // keep panic signatures stable across checkouts: drop everything up to `crates/`
    match location.find("crates/") {
        Some(idx) => location[idx..].to_string(),
        None => location.to_string(),
    }
}

/// Converts a captured panic into a `Failure` whose signature does not depend on line numbers.
pub fn panic_failure((location, message): (String, String)) -> Failure {
    let location = strip_repo_prefix(&location);
    let file = location.rsplit_once(':').map_or(location.as_str(), |(f, _)| f);
    let short: String = message.chars().take(60).collect();
    Failure::new(
        format!("panic:{file}:{short}"),
        format!("panicked at {location}: {message}"),
    )
}

fn hash64(bytes: &[u8]) -> u64 {
    let digest = Sha256::digest(bytes);
    u64::from_le_bytes(digest[..8].try_into().unwrap())
}

fn derive_rng_seed(seed: u64, id: &str, sub: &str, shard: u32) -> [u8; 32] {
    let mut hasher = Sha256::new();
    hasher.update(b"verif-seed-v1");
    hasher.update(seed.to_le_bytes());
    hasher.update(id.as_bytes());
    hasher.update([0]);
    hasher.update(sub.as_bytes());
    hasher.update([0]);
    hasher.update(shard.to_le_bytes());
    hasher.finalize().into()
}

fn truncate_sample(value: serde_json::Value) -> serde_json::Value {
    const LIMIT: usize = 6000;
    let text = serde_json::to_string(&value).unwrap_or_default();
    if text.len() <= LIMIT {
        value
    } else {
        let mut end = LIMIT;
        while !text.is_char_boundary(end) {
            end -= 1;
        }
        serde_json::Value::String(format!(
            "{}... [truncated, {} bytes of JSON]",
            &text[..end],
            text.len()
        ))
    }
}

/// Description of one proptest-driven sub-check.
pub struct Prop<T> {
    pub name: &'static str,
    /// How cases are generated and what makes one non-trivial.
    pub rule: &'static str,
    pub cases_quick: u32,
    pub cases_thorough: u32,
    /// Worker threads; fixed (not derived from the machine) so a run is a function of the seed.
    pub shards: u32,
    /// Vacuity floor: below this non-trivial fraction the run is reported inconclusive (exit 2).
    pub min_nontrivial: f64,
    pub max_shrink_iters: u32,
    pub strategy: Box<dyn Fn(Tier) -> BoxedStrategy<T> + Send + Sync>,
    pub test: Box<dyn Fn(&T, &mut Ctx) -> CaseResult + Send + Sync>,
}

impl Session {
    /// Parses `argv` (`<tier>` | `--replay <file>`) and the `VERIF_SEED` / `VERIF_TIER` /
    /// `VERIF_BUDGET_S` environment variables.
    pub fn from_args(id: &'static str, level: &'static str, args: &[String]) -> Self {
        install_panic_hook();
        let mut tier = match std::env::var("VERIF_TIER").ok().as_deref() {
            Some("thorough") => Tier::Thorough,
            _ => Tier::Quick,
        };
        let mut mode = Mode::Run;
        let mut iter = args.iter();
        while let Some(arg) = iter.next() {
            match arg.as_str() {
                "quick" => tier = Tier::Quick,
                "thorough" => tier = Tier::Thorough,
                "--replay" => {
                    let path = iter.next().expect("--replay needs a path");
                    mode = Mode::Replay(PathBuf::from(path));
                }
                other => {
                    eprintln!("unknown argument `{other}`");
                    std::process::exit(2);
                }
            }
        }
        let seed = std::env::var("VERIF_SEED")
            .ok()
            .and_then(|s| s.trim().parse::<i128>().ok())
            .map_or(0, |v| v as u64);
        let started = Instant::now();
        let deadline = std::env::var("VERIF_BUDGET_S")
            .ok()
            .and_then(|s| s.parse::<u64>().ok())
            .map(|s| started + std::time::Duration::from_secs(s));
        let known = load_known_findings(id);
        Self {
            id,
            tier,
            seed,
            mode,
            level,
            subs: Vec::new(),
            assumptions: Vec::new(),
            known,
            violations: Vec::new(),
            inconclusive: Vec::new(),
            started,
            deadline,
            extra: BTreeMap::new(),
        }
    }

    pub fn assume(&mut self, text: impl Into<String>) {
        self.assumptions.push(text.into());
    }

    pub fn extra(&mut self, key: &str, value: impl Serialize) {
        self.extra.insert(
            key.to_string(),
            serde_json::to_value(value).unwrap_or(serde_json::Value::Null),
        );
    }

    pub fn is_replay(&self) -> bool {
        matches!(self.mode, Mode::Replay(_))
    }

    fn known_signatures(&self) -> Arc<Vec<String>> {
        Arc::new(
            self.known
                .iter()
                .filter(|k| k.status == "known")
                .map(|k| k.signature.clone())
                .collect(),
        )
    }

    fn is_known(&self, signature: &str) -> bool {
        self.known
            .iter()
            .any(|k| k.status == "known" && k.signature == signature)
    }

    fn regression_files(&self, sub: &str) -> Vec<(PathBuf, ReplayFile)> {
        let dir = verif_root().join("replays").join(self.id);
        let mut out = Vec::new();
        let Ok(entries) = std::fs::read_dir(&dir) else {
            return out;
        };
        let mut paths: Vec<PathBuf> = entries.filter_map(|e| e.ok().map(|e| e.path())).collect();
        paths.sort();
        for path in paths {
            if path.extension().and_then(|e| e.to_str()) != Some("json") {
                continue;
            }
            let Ok(text) = std::fs::read_to_string(&path) else {
                continue;
            };
            match serde_json::from_str::<ReplayFile>(&text) {
                Ok(file) if file.sub == sub && file.property == self.id => out.push((path, file)),
                Ok(_) => {}
                Err(error) => eprintln!("warning: cannot parse replay {}: {error}", path.display()),
            }
        }
        out
    }

    fn write_violation<T: Serialize>(&mut self, sub: &str, case: &T, failure: &Failure) -> PathBuf {
        let case = serde_json::to_value(case).unwrap_or(serde_json::Value::Null);
        let file = ReplayFile {
            property: self.id.to_string(),
            sub: sub.to_string(),
            seed: self.seed,
            signature: failure.signature.clone(),
            message: failure.message.clone(),
            case,
        };
        let text = serde_json::to_string_pretty(&file).unwrap();
        let dir = verif_root().join("out").join("violations").join(self.id);
        let _ = std::fs::create_dir_all(&dir);
        let name = format!("{}-{:016x}.json", sub, hash64(text.as_bytes()));
        let path = dir.join(name);
        if let Err(error) = std::fs::write(&path, text) {
            eprintln!("warning: cannot write replay {}: {error}", path.display());
        }
        path
    }

    fn record_violation(&mut self, sub: &str, path: PathBuf, failure: Failure) {
        println!("VIOLATION property={} replay={}", self.id, path.display());
        eprintln!(
            "[{}:{}] violation signature={} :: {}",
            self.id, sub, failure.signature, failure.message
        );
        self.violations.push((sub.to_string(), path, failure));
    }

    /// Runs one case outside proptest (replay / regression / enumeration).
    fn run_single<T>(
        test: &(dyn Fn(&T, &mut Ctx) -> CaseResult + Send + Sync),
        case: &T,
        replay: bool,
        known: &Arc<Vec<String>>,
    ) -> (CaseResult, Ctx) {
        let mut ctx = Ctx {
            replay,
            known: known.clone(),
            ..Ctx::default()
        };
        let result = match catch(|| test(case, &mut ctx)) {
            Ok(result) => result,
            Err(panic) => Err(panic_failure(panic)),
        };
        (result, ctx)
    }

    /// A proptest-driven sub-check. Returns `true` if no (unknown) violation was found.
    pub fn run_prop<T>(&mut self, prop: Prop<T>) -> bool
    where
        T: Debug + Clone + Serialize + DeserializeOwned + Send + 'static,
    {
        self.run_prop_with(prop, None)
    }

    /// Like `run_prop`; `simplify` lists structurally simpler variants of a failing case (drop a
    /// block, an operation, an action, ...). After proptest's own shrinking the runner greedily
    /// walks these variants, keeping any that still fails with the same signature, which removes
    /// the irrelevant operations proptest's element-wise shrinking leaves behind in long histories.
    pub fn run_prop_with<T>(&mut self, prop: Prop<T>, simplify: Option<Simplifier<T>>) -> bool
    where
        T: Debug + Clone + Serialize + DeserializeOwned + Send + 'static,
    {
        let sub_started = Instant::now();
        // --replay <file>: only the sub-check named in the file is executed, once, strictly.
        if let Mode::Replay(path) = &self.mode {
            let path = path.clone();
            let text = std::fs::read_to_string(&path).unwrap_or_else(|error| {
                eprintln!("cannot read replay file {}: {error}", path.display());
                std::process::exit(2);
            });
            let file: ReplayFile = serde_json::from_str(&text).unwrap_or_else(|error| {
                eprintln!("cannot parse replay file {}: {error}", path.display());
                std::process::exit(2);
            });
            if file.sub != prop.name || file.property != self.id {
                return true;
            }
            let case: T = serde_json::from_value(file.case).unwrap_or_else(|error| {
                eprintln!("replay case does not match sub-check {}: {error}", prop.name);
                std::process::exit(2);
            });
            let (result, ctx) = Self::run_single(&*prop.test, &case, true, &self.known_signatures());
            let mut stats = SubStats {
                evaluations: 1,
                ..SubStats::default()
            };
            if ctx.nontrivial {
                stats.nontrivial = 1;
                stats.distinct_nontrivial.insert(1);
            }
            stats.samples.push(serde_json::json!({"case": truncate_sample(
                serde_json::to_value(&case).unwrap_or_default()), "notes": ctx.notes}));
            self.subs.push(SubReport {
                name: prop.name.to_string(),
                rule: prop.rule.to_string(),
                stats,
                floor: 0.0,
                wall_s: sub_started.elapsed().as_secs_f64(),
            });
            return match result {
                Ok(()) => {
                    eprintln!("[{}:{}] replay passed", self.id, prop.name);
                    true
                }
                Err(failure) => {
                    if self.is_known(&failure.signature) {
                        eprintln!(
                            "[{}:{}] replay reproduces known finding {}",
                            self.id, prop.name, failure.signature
                        );
                    }
                    self.record_violation(prop.name, path, failure);
                    false
                }
            };
        }

        let mut stats = SubStats::default();

        // regression tier: stored minimal cases first
        for (path, file) in self.regression_files(prop.name) {
            let Ok(case) = serde_json::from_value::<T>(file.case) else {
                eprintln!("warning: stale replay file {}", path.display());
                continue;
            };
            stats.regression_replayed += 1;
            let (result, _ctx) = Self::run_single(&*prop.test, &case, true, &self.known_signatures());
            if let Err(failure) = result {
                if self.is_known(&failure.signature) {
                    *stats.known_hits.entry(failure.signature).or_default() += 1;
                } else {
                    self.record_violation(prop.name, path, failure);
                    self.subs.push(SubReport {
                        name: prop.name.to_string(),
                        rule: prop.rule.to_string(),
                        stats,
                        floor: 0.0,
                        wall_s: sub_started.elapsed().as_secs_f64(),
                    });
                    return false;
                }
            }
        }

        let total_cases = self.tier.pick(prop.cases_quick, prop.cases_thorough).max(1);
        let shards = prop.shards.clamp(1, total_cases);
        let per_shard = total_cases.div_ceil(shards);
        let shared = Arc::new(Mutex::new(stats));
        let stop = Arc::new(AtomicBool::new(false));
        let known: Arc<Vec<String>> = Arc::new(
            self.known
                .iter()
                .filter(|k| k.status == "known")
                .map(|k| k.signature.clone())
                .collect(),
        );
        let prop = Arc::new(prop);
        let tier = self.tier;
        let deadline = self.deadline;
        let mut handles = Vec::new();
        for shard in 0..shards {
            let shared = shared.clone();
            let stop = stop.clone();
            let known = known.clone();
            let prop = prop.clone();
            let rng_seed = derive_rng_seed(self.seed, self.id, prop.name, shard);
            let handle = std::thread::Builder::new()
                .name(format!("{}-{}-{shard}", self.id, prop.name))
                .stack_size(64 << 20)
                .spawn(move || -> Option<(T, Failure)> {
                    quiet_panics(true);
                    let config = Config {
                        cases: per_shard,
                        failure_persistence: None,
                        max_shrink_iters: prop.max_shrink_iters,
                        max_global_rejects: 65_536,
                        max_shrink_time: 90_000,
                        ..Config::default()
                    };
                    let rng = TestRng::from_seed(RngAlgorithm::ChaCha, &rng_seed);
                    let mut runner = TestRunner::new_with_rng(config, rng);
                    let strategy = (prop.strategy)(tier);
                    // set once this shard has seen a failure: proptest re-runs the closure while
                    // shrinking and those executions must not be counted.
                    let failed_here = std::cell::Cell::new(false);
                    let last_failure: RefCell<Option<Failure>> = RefCell::new(None);
                    let outcome = runner.run(&strategy, |case| {
                        if !failed_here.get() {
                            if stop.load(Ordering::Relaxed) {
                                return Ok(());
                            }
                            if deadline.is_some_and(|d| Instant::now() > d) {
                                return Ok(());
                            }
                        }
                        let mut ctx = Ctx {
                            known: known.clone(),
                            ..Ctx::default()
                        };
                        let result = match catch(|| (prop.test)(&case, &mut ctx)) {
                            Ok(result) => result,
                            Err(panic) => Err(panic_failure(panic)),
                        };
                        let known_hit = matches!(&result, Err(f) if known.contains(&f.signature));
                        if !failed_here.get() {
                            let mut stats = shared.lock().unwrap();
                            stats.evaluations += 1;
                            for label in &ctx.labels {
                                *stats.classes.entry(label.clone()).or_default() += 1;
                            }
                            if ctx.nontrivial {
                                stats.nontrivial += 1;
                                let json = serde_json::to_vec(&case).unwrap_or_default();
                                let fresh = stats.distinct_nontrivial.insert(hash64(&json));
                                if fresh && stats.samples.len() < 3 {
                                    let value = serde_json::from_slice(&json).unwrap_or_default();
                                    stats.samples.push(serde_json::json!({
                                        "case": truncate_sample(value),
                                        "notes": ctx.notes,
                                    }));
                                }
                            }
                            if let (true, Err(failure)) = (known_hit, &result) {
                                *stats
                                    .known_hits
                                    .entry(failure.signature.clone())
                                    .or_default() += 1;
                            }
                            for signature in &ctx.tolerated {
                                *stats.known_hits.entry(signature.clone()).or_default() += 1;
                            }
                        }
                        match result {
                            Ok(()) => Ok(()),
                            Err(_) if known_hit => Ok(()),
                            Err(failure) => {
                                failed_here.set(true);
                                stop.store(true, Ordering::Relaxed);
                                let reason = failure.signature.clone();
                                *last_failure.borrow_mut() = Some(failure);
                                Err(TestCaseError::fail(reason))
                            }
                        }
                    });
                    match outcome {
                        Ok(()) => None,
                        Err(TestError::Fail(_, minimal)) => {
                            // re-run the minimal case to obtain its own failure description
                            let mut ctx = Ctx {
                                known: known.clone(),
                                ..Ctx::default()
                            };
                            let failure = match catch(|| (prop.test)(&minimal, &mut ctx)) {
                                Ok(Err(failure)) => failure,
                                Err(panic) => panic_failure(panic),
                                Ok(Ok(())) => last_failure.borrow_mut().take().unwrap_or_else(|| {
                                    Failure::new("flaky", "minimal case passed when re-run")
                                }),
                            };
                            Some((minimal, failure))
                        }
                        Err(TestError::Abort(reason)) => {
                            eprintln!("[{}] shard {shard} aborted: {reason}", prop.name);
                            None
                        }
                    }
                })
                .expect("spawn shard thread");
            handles.push(handle);
        }
        let mut failures = Vec::new();
        for handle in handles {
            match handle.join() {
                Ok(Some(failure)) => failures.push(failure),
                Ok(None) => {}
                Err(_) => self
                    .inconclusive
                    .push(format!("{}: a shard thread panicked outside a case", prop.name)),
            }
        }
        let mut stats = std::mem::take(&mut *shared.lock().unwrap());
        if stats.samples.is_empty() {
            // no non-trivial sample: still show what the generator produces
            let mut runner = TestRunner::new_with_rng(
                Config::default(),
                TestRng::from_seed(
                    RngAlgorithm::ChaCha,
                    &derive_rng_seed(self.seed, self.id, prop.name, u32::MAX),
                ),
            );
            if let Ok(tree) = (prop.strategy)(tier).new_tree(&mut runner) {
                use proptest::strategy::ValueTree as _;
                let value = serde_json::to_value(tree.current()).unwrap_or_default();
                stats
                    .samples
                    .push(serde_json::json!({"case": truncate_sample(value), "trivial": true}));
            }
        }
        let ok = failures.is_empty();
        // only the first shard's failure is minimised further and reported (others are the same
        // search seen from a different seed)
        failures.truncate(1);
        if let (Some(simplify), Some((case, failure))) = (&simplify, failures.first_mut()) {
            let budget = Instant::now() + std::time::Duration::from_secs(120);
            let known = self.known_signatures();
            'outer: loop {
                for candidate in simplify(case) {
                    if Instant::now() > budget {
                        break 'outer;
                    }
                    let (result, _) = Self::run_single(&*prop.test, &candidate, false, &known);
                    if let Err(candidate_failure) = result {
                        if candidate_failure.signature == failure.signature {
                            *case = candidate;
                            *failure = candidate_failure;
                            continue 'outer;
                        }
                    }
                }
                break;
            }
        }
        // report the minimal failure
        for (case, failure) in failures {
            let path = self.write_violation(prop.name, &case, &failure);
            if self.violations.iter().any(|(_, p, _)| *p == path) {
                continue;
            }
            self.record_violation(prop.name, path, failure);
        }
        let frac = if stats.evaluations == 0 {
            0.0
        } else {
            stats.nontrivial as f64 / stats.evaluations as f64
        };
        if ok && frac < prop.min_nontrivial {
            self.inconclusive.push(format!(
                "{}: non-trivial fraction {frac:.3} below floor {:.3}",
                prop.name, prop.min_nontrivial
            ));
        }
        eprintln!(
            "[{}:{}] {} cases, {} non-trivial ({} distinct), {:.1}s{}",
            self.id,
            prop.name,
            stats.evaluations,
            stats.nontrivial,
            stats.distinct_nontrivial.len(),
            sub_started.elapsed().as_secs_f64(),
            if ok { "" } else { " -- VIOLATION" }
        );
        self.subs.push(SubReport {
            name: prop.name.to_string(),
            rule: prop.rule.to_string(),
            stats,
            floor: prop.min_nontrivial,
            wall_s: sub_started.elapsed().as_secs_f64(),
        });
        ok
    }

    /// An explicit enumeration sub-check: `cases` is consumed completely (or until the first
    /// violation). `exhaustive` states whether the enumeration covers a finite space completely.
    pub fn run_enum<T, I>(
        &mut self,
        name: &'static str,
        rule: &'static str,
        exhaustive: bool,
        cases: I,
        test: impl Fn(&T, &mut Ctx) -> CaseResult + Send + Sync,
    ) -> bool
    where
        T: Debug + Clone + Serialize + DeserializeOwned,
        I: IntoIterator<Item = T>,
    {
        let sub_started = Instant::now();
        if let Mode::Replay(path) = &self.mode {
            let path = path.clone();
            let Ok(text) = std::fs::read_to_string(&path) else {
                eprintln!("cannot read replay file {}", path.display());
                std::process::exit(2);
            };
            let Ok(file) = serde_json::from_str::<ReplayFile>(&text) else {
                eprintln!("cannot parse replay file {}", path.display());
                std::process::exit(2);
            };
            if file.sub != name || file.property != self.id {
                return true;
            }
            let Ok(case) = serde_json::from_value::<T>(file.case) else {
                eprintln!("replay case does not match sub-check {name}");
                std::process::exit(2);
            };
            let (result, _) = Self::run_single(&test, &case, true, &self.known_signatures());
            let mut stats = SubStats {
                evaluations: 1,
                ..SubStats::default()
            };
            stats.samples.push(serde_json::to_value(&case).unwrap_or_default());
            self.subs.push(SubReport {
                name: name.to_string(),
                rule: rule.to_string(),
                stats,
                floor: 0.0,
                wall_s: 0.0,
            });
            return match result {
                Ok(()) => {
                    eprintln!("[{}:{name}] replay passed", self.id);
                    true
                }
                Err(failure) => {
                    self.record_violation(name, path, failure);
                    false
                }
            };
        }
        let mut stats = SubStats {
            exhaustive,
            ..SubStats::default()
        };
        let mut ok = true;
        let mut all: Vec<T> = self
            .regression_files(name)
            .into_iter()
            .filter_map(|(_, file)| serde_json::from_value::<T>(file.case).ok())
            .collect();
        stats.regression_replayed = all.len() as u64;
        let regression = all.len();
        all.extend(cases);
        for (idx, case) in all.iter().enumerate() {
            if idx >= regression && self.deadline.is_some_and(|d| Instant::now() > d) {
                stats.exhaustive = false;
                break;
            }
            let (result, ctx) = Self::run_single(&test, case, idx < regression, &self.known_signatures());
            for signature in &ctx.tolerated {
                *stats.known_hits.entry(signature.clone()).or_default() += 1;
            }
            if idx >= regression {
                stats.evaluations += 1;
                for label in &ctx.labels {
                    *stats.classes.entry(label.clone()).or_default() += 1;
                }
                if ctx.nontrivial {
                    stats.nontrivial += 1;
                    let json = serde_json::to_vec(case).unwrap_or_default();
                    let fresh = stats.distinct_nontrivial.insert(hash64(&json));
                    if fresh && stats.samples.len() < 3 {
                        let value = serde_json::from_slice(&json).unwrap_or_default();
                        stats.samples.push(
                            serde_json::json!({"case": truncate_sample(value), "notes": ctx.notes}),
                        );
                    }
                }
            }
            if let Err(failure) = result {
                if self.is_known(&failure.signature) {
                    *stats.known_hits.entry(failure.signature).or_default() += 1;
                    continue;
                }
                let path = self.write_violation(name, case, &failure);
                self.record_violation(name, path, failure);
                stats.exhaustive = false;
                ok = false;
                break;
            }
        }
        if stats.samples.is_empty() {
            if let Some(first) = all.get(regression) {
                stats.samples.push(truncate_sample(
                    serde_json::to_value(first).unwrap_or_default(),
                ));
            }
        }
        eprintln!(
            "[{}:{name}] {} cases enumerated, {} non-trivial, {:.1}s{}",
            self.id,
            stats.evaluations,
            stats.nontrivial,
            sub_started.elapsed().as_secs_f64(),
            if ok { "" } else { " -- VIOLATION" }
        );
        self.subs.push(SubReport {
            name: name.to_string(),
            rule: rule.to_string(),
            stats,
            floor: 0.0,
            wall_s: sub_started.elapsed().as_secs_f64(),
        });
        ok
    }

    /// Adds counts measured by an external engine (e.g. a libFuzzer campaign).
    pub fn add_external(
        &mut self,
        name: &str,
        rule: &str,
        evaluations: u64,
        distinct_nontrivial: u64,
        samples: Vec<serde_json::Value>,
        wall_s: f64,
    ) {
        let mut stats = SubStats {
            evaluations,
            nontrivial: distinct_nontrivial,
            ..SubStats::default()
        };
        for i in 0..distinct_nontrivial {
            stats.distinct_nontrivial.insert(i);
        }
        stats.samples = samples;
        self.subs.push(SubReport {
            name: name.to_string(),
            rule: rule.to_string(),
            stats,
            floor: 0.0,
            wall_s,
        });
    }

    /// Stores `case` as a replay file of sub-check `sub` and reports it as a violation (for cases
    /// found by an external engine and confirmed through the sub-check's own oracle).
    pub fn report_case<T: Serialize>(&mut self, sub: &str, case: &T, failure: Failure) {
        if self.is_known(&failure.signature) {
            return;
        }
        let path = self.write_violation(sub, case, &failure);
        self.record_violation(sub, path, failure);
    }

    /// Reports a violation found by an external engine; `path` is its replay file.
    pub fn external_violation(&mut self, sub: &str, path: PathBuf, failure: Failure) {
        if self.is_known(&failure.signature) {
            return;
        }
        self.record_violation(sub, path, failure);
    }

    pub fn inconclusive(&mut self, why: impl Into<String>) {
        self.inconclusive.push(why.into());
    }

    /// Writes the evidence file, prints known-finding lines and exits with the session's status.
    pub fn finish(self) -> ! {
        let wall_s = self.started.elapsed().as_secs_f64();
        let mut evaluations = 0_u64;
        let mut distinct = 0_u64;
        let mut classes: BTreeMap<String, u64> = BTreeMap::new();
        let mut samples = Vec::new();
        let mut subs_json = Vec::new();
        let mut rules = Vec::new();
        let mut known_hits: BTreeMap<String, u64> = BTreeMap::new();
        let mut all_exhaustive = !self.subs.is_empty();
        for sub in &self.subs {
            evaluations += sub.stats.evaluations;
            distinct += sub.stats.distinct_nontrivial.len() as u64;
            for (label, count) in &sub.stats.classes {
                *classes.entry(format!("{}/{}", sub.name, label)).or_default() += count;
            }
            for sample in &sub.stats.samples {
                samples.push(serde_json::json!({"sub": sub.name, "sample": sample}));
            }
            for (sig, count) in &sub.stats.known_hits {
                *known_hits.entry(sig.clone()).or_default() += count;
            }
            all_exhaustive &= sub.stats.exhaustive;
            rules.push(format!("[{}] {}", sub.name, sub.rule));
            subs_json.push(serde_json::json!({
                "name": sub.name,
                "evaluations": sub.stats.evaluations,
                "nontrivial": sub.stats.nontrivial,
                "distinct_nontrivial": sub.stats.distinct_nontrivial.len(),
                "nontrivial_floor": sub.floor,
                "regression_replayed": sub.stats.regression_replayed,
                "exhaustive": sub.stats.exhaustive,
                "wall_s": sub.wall_s,
            }));
        }
        for known in self.known.iter().filter(|k| k.status == "known") {
            let hits = known_hits.get(&known.signature).copied().unwrap_or(0);
            println!(
                "KNOWN-FINDING: property={} {} [signature={}; reproduced {} time(s) in this run, \
                 those cases were excluded from the verdict]",
                self.id, known.what, known.signature, hits
            );
        }
        let mut coverage = serde_json::Map::new();
        coverage.insert("evaluations".into(), evaluations.into());
        coverage.insert("distinct_nontrivial".into(), distinct.into());
        coverage.insert("rule".into(), rules.join(" || ").into());
        coverage.insert("samples".into(), samples.into());
        coverage.insert("exhaustive".into(), all_exhaustive.into());
        coverage.insert("classes".into(), serde_json::to_value(&classes).unwrap());
        coverage.insert("subchecks".into(), subs_json.into());
        coverage.insert(
            "known_findings_excluded".into(),
            serde_json::to_value(&known_hits).unwrap(),
        );
        if !self.inconclusive.is_empty() {
            coverage.insert(
                "inconclusive".into(),
                serde_json::to_value(&self.inconclusive).unwrap(),
            );
        }
        for (key, value) in self.extra {
            coverage.insert(key, value);
        }
        let evidence = serde_json::json!({
            "property_id": self.id,
            "tier": self.tier.as_str(),
            "seed": self.seed,
            "level": self.level,
            "coverage": coverage,
            "assumptions": self.assumptions,
            "wall_s": wall_s,
            "violations": self.violations.len(),
        });
        if !matches!(self.mode, Mode::Replay(_)) {
            // a property decided by several binaries writes one part per binary; `check` merges
            let (dir, name) = match std::env::var("VERIF_PART") {
                Ok(part) if !part.is_empty() => (
                    verif_root().join("out").join("parts"),
                    format!("{}.{part}.json", self.id),
                ),
                _ => (verif_root().join("evidence"), format!("{}.json", self.id)),
            };
            let _ = std::fs::create_dir_all(&dir);
            let path = dir.join(name);
            let text = serde_json::to_string_pretty(&evidence).unwrap();
            if let Err(error) = std::fs::write(&path, text) {
                eprintln!("cannot write evidence file {}: {error}", path.display());
                std::process::exit(2);
            }
        }
        if !self.violations.is_empty() {
            std::process::exit(1);
        }
        if !self.inconclusive.is_empty() {
            for why in &self.inconclusive {
                eprintln!("INCONCLUSIVE property={} {why}", self.id);
            }
            std::process::exit(2);
        }
        eprintln!(
            "[{}] held on {evaluations} cases ({distinct} distinct non-trivial), {wall_s:.1}s",
            self.id
        );
        std::process::exit(0);
    }
}

fn load_known_findings(id: &str) -> Vec<KnownFinding> {
    let path = verif_root().join("known_findings.json");
    let Ok(text) = std::fs::read_to_string(&path) else {
        return Vec::new();
    };
    #[derive(Deserialize)]
    struct File {
        findings: Vec<KnownFinding>,
    }
    match serde_json::from_str::<File>(&text) {
        Ok(file) => file
            .findings
            .into_iter()
            .filter(|k| k.property == id)
            .collect(),
        Err(error) => {
            eprintln!("cannot parse {}: {error}", path.display());
            std::process::exit(2);
        }
    }
}

/// Helper for binaries that host several properties: `vbin <ID> <tier>|--replay <file>`.
pub fn split_args() -> (String, Vec<String>) {
    let mut args: Vec<String> = std::env::args().skip(1).collect();
    if args.is_empty() {
        eprintln!("usage: <bin> <PROPERTY-ID> [quick|thorough|--replay <file>]");
        std::process::exit(2);
    }
    let id = args.remove(0);
    (id, args)
}
