//! A small schema-less protobuf wire-format tree, for structure-aware mutation of valid encodings:
//! parse bytes into fields (recursively where a length-delimited payload itself parses as a
//! message), mutate a field chosen by index, re-encode (optionally with a lying length prefix).

#[derive(Clone, Debug, PartialEq)]
pub enum Payload {
    Varint(u64),
    Fixed64([u8; 8]),
    Fixed32([u8; 4]),
    /// raw bytes and, if they parse completely as a non-empty message, that message
    Bytes(Vec<u8>, Option<Vec<Field>>),
}

#[derive(Clone, Debug, PartialEq)]
pub struct Field {
    pub number: u32,
    pub payload: Payload,
    /// encode the length prefix as `actual + delta` (only for `Payload::Bytes`)
    pub length_delta: i64,
}

fn read_varint(bytes: &[u8], pos: &mut usize) -> Option<u64> {
    let mut value = 0_u64;
    for i in 0..10 {
        let byte = *bytes.get(*pos)?;
        *pos += 1;
        value |= u64::from(byte & 0x7f).checked_shl(7 * i)?;
        if byte & 0x80 == 0 {
            return Some(value);
        }
    }
    None
}

pub fn write_varint(mut value: u64, out: &mut Vec<u8>) {
    loop {
        let byte = (value & 0x7f) as u8;
        value >>= 7;
        if value == 0 {
            out.push(byte);
            return;
        }
        out.push(byte | 0x80);
    }
}

/// Parses `bytes` as a message; `None` unless every byte is consumed by well-formed fields.
pub fn parse(bytes: &[u8], depth: u32) -> Option<Vec<Field>> {
    let mut fields = Vec::new();
    let mut pos = 0;
    while pos < bytes.len() {
        let key = read_varint(bytes, &mut pos)?;
        let number = u32::try_from(key >> 3).ok()?;
        if number == 0 {
            return None;
        }
        let payload = match key & 7 {
            0 => Payload::Varint(read_varint(bytes, &mut pos)?),
            1 => {
                let chunk = bytes.get(pos..pos + 8)?;
                pos += 8;
                Payload::Fixed64(chunk.try_into().ok()?)
            }
            5 => {
                let chunk = bytes.get(pos..pos + 4)?;
                pos += 4;
                Payload::Fixed32(chunk.try_into().ok()?)
            }
            2 => {
                let len = usize::try_from(read_varint(bytes, &mut pos)?).ok()?;
                let chunk = bytes.get(pos..pos.checked_add(len)?)?;
                pos += len;
                // only treat the payload as a message if re-encoding it is the identity, so that
                // `encode(parse(x)) == x` for every `x`
                let nested = if depth > 0 && !chunk.is_empty() {
                    parse(chunk, depth - 1).filter(|children| encode(children) == chunk)
                } else {
                    None
                };
                Payload::Bytes(chunk.to_vec(), nested)
            }
            _ => return None,
        };
        fields.push(Field {
            number,
            payload,
            length_delta: 0,
        });
    }
    Some(fields)
}

pub fn encode(fields: &[Field]) -> Vec<u8> {
    let mut out = Vec::new();
    for field in fields {
        let wire_type = match field.payload {
            Payload::Varint(_) => 0,
            Payload::Fixed64(_) => 1,
            Payload::Bytes(..) => 2,
            Payload::Fixed32(_) => 5,
        };
        write_varint((u64::from(field.number) << 3) | wire_type, &mut out);
        match &field.payload {
            Payload::Varint(v) => write_varint(*v, &mut out),
            Payload::Fixed64(b) => out.extend_from_slice(b),
            Payload::Fixed32(b) => out.extend_from_slice(b),
            Payload::Bytes(raw, nested) => {
                let body = match nested {
                    Some(children) => encode(children),
                    None => raw.clone(),
                };
                let len = (body.len() as i64).saturating_add(field.length_delta).max(0) as u64;
                write_varint(len, &mut out);
                out.extend_from_slice(&body);
            }
        }
    }
    out
}

/// Number of fields in the tree (pre-order).
pub fn count(fields: &[Field]) -> usize {
    fields
        .iter()
        .map(|f| {
            1 + match &f.payload {
                Payload::Bytes(_, Some(children)) => count(children),
                _ => 0,
            }
        })
        .sum()
}

/// What to do with the field at a pre-order index.
#[derive(Clone, Debug)]
pub enum Edit {
    Delete,
    Duplicate,
    /// replace a varint value (no-op on other payloads)
    SetVarint(u64),
    /// lie about the length of a length-delimited field
    LengthDelta(i64),
    /// replace a length-delimited payload by raw bytes
    ReplaceBytes(Vec<u8>),
    /// append a varint field to a nested message (no-op unless the field is a message)
    AddVarintChild(u32, u64),
    /// turn a nested message into opaque bytes cut off after this many bytes
    TruncateNested(usize),
}

/// Applies `edit` to the `index`-th field in pre-order. Returns whether anything changed.
pub fn apply(fields: &mut Vec<Field>, index: &mut usize, edit: &Edit) -> bool {
    let mut i = 0;
    while i < fields.len() {
        if *index == 0 {
            return match edit {
                Edit::Delete => {
                    fields.remove(i);
                    true
                }
                Edit::Duplicate => {
                    let copy = fields[i].clone();
                    fields.insert(i, copy);
                    true
                }
                Edit::SetVarint(value) => match &mut fields[i].payload {
                    Payload::Varint(v) if *v != *value => {
                        *v = *value;
                        true
                    }
                    _ => false,
                },
                Edit::LengthDelta(delta) => match fields[i].payload {
                    Payload::Bytes(..) if *delta != 0 => {
                        fields[i].length_delta = *delta;
                        true
                    }
                    _ => false,
                },
                Edit::ReplaceBytes(bytes) => match &mut fields[i].payload {
                    Payload::Bytes(raw, nested) => {
                        *raw = bytes.clone();
                        *nested = None;
                        true
                    }
                    _ => false,
                },
                Edit::AddVarintChild(number, value) => match &mut fields[i].payload {
                    Payload::Bytes(_, Some(children)) => {
                        children.push(Field {
                            number: (*number).max(1),
                            payload: Payload::Varint(*value),
                            length_delta: 0,
                        });
                        true
                    }
                    _ => false,
                },
                Edit::TruncateNested(keep) => match &mut fields[i].payload {
                    Payload::Bytes(raw, nested) => {
                        let mut body = match nested {
                            Some(children) => encode(children),
                            None => raw.clone(),
                        };
                        if *keep >= body.len() {
                            return false;
                        }
                        body.truncate(*keep);
                        *raw = body;
                        *nested = None;
                        true
                    }
                    _ => false,
                },
            };
        }
        *index -= 1;
        if let Payload::Bytes(_, Some(children)) = &mut fields[i].payload {
            let before = *index;
            if before < count(children) {
                return apply(children, index, edit);
            }
            *index -= count(children);
        }
        i += 1;
    }
    false
}

/// Pre-order indices of the fields with a varint payload.
pub fn varint_indices(fields: &[Field]) -> Vec<usize> {
    fn walk(fields: &[Field], next: &mut usize, out: &mut Vec<usize>) {
        for field in fields {
            let me = *next;
            *next += 1;
            match &field.payload {
                Payload::Varint(_) => out.push(me),
                Payload::Bytes(_, Some(children)) => walk(children, next, out),
                _ => {}
            }
        }
    }
    let mut out = Vec::new();
    walk(fields, &mut 0, &mut out);
    out
}

/// Pre-order indices of the fields that are nested messages.
pub fn message_indices(fields: &[Field]) -> Vec<usize> {
    fn walk(fields: &[Field], next: &mut usize, out: &mut Vec<usize>) {
        for field in fields {
            let me = *next;
            *next += 1;
            if let Payload::Bytes(_, Some(children)) = &field.payload {
                out.push(me);
                walk(children, next, out);
            }
        }
    }
    let mut out = Vec::new();
    walk(fields, &mut 0, &mut out);
    out
}

#[cfg(test)]
mod tests {
    use super::*;

    #[test]
    fn round_trip() {
        // field 1 varint 150; field 2 nested { field 1 varint 1 }; field 3 bytes "ab"
        let bytes = [0x08, 0x96, 0x01, 0x12, 0x02, 0x08, 0x01, 0x1a, 0x02, b'a', b'b'];
        let tree = parse(&bytes, 4).unwrap();
        assert_eq!(count(&tree), 4);
        assert_eq!(encode(&tree), bytes);
    }
}

// ---------------------------------------------------------------------------------------------
// generated mutations of an encoded message (shared by the decoder checks)
// ---------------------------------------------------------------------------------------------

pub mod mutation {
    use proptest::prelude::*;
    use serde::{
        Deserialize,
        Serialize,
    };

    use super::{
        apply,
        count,
        encode,
        message_indices,
        parse,
        varint_indices,
        Edit,
    };
    use crate::gen::{
        pick_index,
        HexBytes,
    };

    #[derive(Clone, Copy, Debug, PartialEq, Eq, Serialize, Deserialize)]
    pub enum Varint {
        Zero,
        One,
        Two,
        TwoPow31,
        TwoPow32,
        TwoPow63,
        Max,
        HalfUsizeMax,
        HalfUsizeMaxPlusOne,
        Small(u8),
    }

    impl Varint {
        pub fn value(self) -> u64 {
            match self {
                Varint::Zero => 0,
                Varint::One => 1,
                Varint::Two => 2,
                Varint::TwoPow31 => 1 << 31,
                Varint::TwoPow32 => 1 << 32,
                Varint::TwoPow63 => 1 << 63,
                Varint::Max => u64::MAX,
                Varint::HalfUsizeMax => (usize::MAX / 2) as u64,
                Varint::HalfUsizeMaxPlusOne => (usize::MAX / 2) as u64 + 1,
                Varint::Small(v) => u64::from(v),
            }
        }
    }

    #[derive(Clone, Debug, Serialize, Deserialize)]
    pub enum Mutation {
        // --- on the field tree
        Delete(u16),
        Duplicate(u16),
        SetVarint(u16, Varint),
        AddVarint(u16, u8, Varint),
        LengthDelta(u16, i8),
        TruncateNested(u16, u16),
        ReplaceBytes(u16, HexBytes),
        // --- on the encoded bytes
        Truncate(u16),
        BitFlip(u16, u8),
        /// copy `len` bytes from `from` to `at`
        Splice { at: u16, from: u16, len: u8 },
        Append(HexBytes),
    }

    pub fn varint() -> impl Strategy<Value = Varint> {
        prop_oneof![
            Just(Varint::Zero),
            Just(Varint::One),
            Just(Varint::Two),
            Just(Varint::TwoPow31),
            Just(Varint::TwoPow32),
            Just(Varint::TwoPow63),
            Just(Varint::Max),
            Just(Varint::HalfUsizeMax),
            Just(Varint::HalfUsizeMaxPlusOne),
            any::<u8>().prop_map(Varint::Small),
        ]
    }

    pub fn strategy() -> BoxedStrategy<Mutation> {
        let bytes = || proptest::collection::vec(any::<u8>(), 0..40).prop_map(HexBytes);
        prop_oneof![
            4 => any::<u16>().prop_map(Mutation::Delete),
            4 => any::<u16>().prop_map(Mutation::Duplicate),
            8 => (any::<u16>(), varint()).prop_map(|(a, b)| Mutation::SetVarint(a, b)),
            4 => (any::<u16>(), 1_u8..=6, varint()).prop_map(|(a, b, c)| Mutation::AddVarint(a, b, c)),
            4 => (any::<u16>(), prop_oneof![-3_i8..=3, Just(i8::MAX), Just(i8::MIN)])
                .prop_map(|(a, b)| Mutation::LengthDelta(a, b)),
            3 => (any::<u16>(), any::<u16>()).prop_map(|(a, b)| Mutation::TruncateNested(a, b)),
            3 => (any::<u16>(), bytes()).prop_map(|(a, b)| Mutation::ReplaceBytes(a, b)),
            2 => any::<u16>().prop_map(Mutation::Truncate),
            3 => (any::<u16>(), 0_u8..8).prop_map(|(a, b)| Mutation::BitFlip(a, b)),
            2 => (any::<u16>(), any::<u16>(), 1_u8..=64)
                .prop_map(|(at, from, len)| Mutation::Splice { at, from, len }),
            1 => bytes().prop_map(Mutation::Append),
        ]
        .boxed()
    }

    /// Applies the mutations to a valid encoding. Returns the mutated bytes and how many of the
    /// mutations actually changed something.
    pub fn mutate(encoded: &[u8], mutations: &[Mutation]) -> (Vec<u8>, usize) {
        let mut applied = 0;
        let mut bytes = match parse(encoded, 8) {
            Some(mut tree) => {
                for m in mutations {
                    let n = count(&tree);
                    let changed = match m {
                        Mutation::Delete(sel) => apply(&mut tree, &mut pick_index(*sel, n), &Edit::Delete),
                        Mutation::Duplicate(sel) => apply(&mut tree, &mut pick_index(*sel, n), &Edit::Duplicate),
                        Mutation::SetVarint(sel, value) => {
                            let varints = varint_indices(&tree);
                            match varints.get(pick_index(*sel, varints.len())) {
                                Some(index) if !varints.is_empty() => {
                                    apply(&mut tree, &mut index.clone(), &Edit::SetVarint(value.value()))
                                }
                                _ => false,
                            }
                        }
                        Mutation::AddVarint(sel, number, value) => {
                            let messages = message_indices(&tree);
                            match messages.get(pick_index(*sel, messages.len())) {
                                Some(index) if !messages.is_empty() => apply(
                                    &mut tree,
                                    &mut index.clone(),
                                    &Edit::AddVarintChild(u32::from(*number), value.value()),
                                ),
                                _ => false,
                            }
                        }
                        Mutation::LengthDelta(sel, delta) => apply(
                            &mut tree,
                            &mut pick_index(*sel, n),
                            &Edit::LengthDelta(i64::from(*delta)),
                        ),
                        Mutation::TruncateNested(sel, fraction) => apply(
                            &mut tree,
                            &mut pick_index(*sel, n),
                            &Edit::TruncateNested(pick_index(*fraction, 96)),
                        ),
                        Mutation::ReplaceBytes(sel, bytes) => apply(
                            &mut tree,
                            &mut pick_index(*sel, n),
                            &Edit::ReplaceBytes(bytes.0.clone()),
                        ),
                        _ => continue,
                    };
                    applied += usize::from(changed);
                }
                encode(&tree)
            }
            None => encoded.to_vec(),
        };
        for m in mutations {
            match m {
                Mutation::Truncate(fraction) => {
                    let keep = pick_index(*fraction, bytes.len());
                    if keep < bytes.len() {
                        bytes.truncate(keep);
                        applied += 1;
                    }
                }
                Mutation::BitFlip(pos, bit) => {
                    if !bytes.is_empty() {
                        let p = pick_index(*pos, bytes.len());
                        bytes[p] ^= 1 << (bit % 8);
                        applied += 1;
                    }
                }
                Mutation::Splice { at, from, len } => {
                    if !bytes.is_empty() {
                        let from = pick_index(*from, bytes.len());
                        let at = pick_index(*at, bytes.len());
                        let chunk: Vec<u8> =
                            bytes[from..(from + *len as usize).min(bytes.len())].to_vec();
                        for (i, b) in chunk.into_iter().enumerate() {
                            if let Some(slot) = bytes.get_mut(at + i) {
                                *slot = b;
                            }
                        }
                        applied += 1;
                    }
                }
                Mutation::Append(extra) => {
                    if !extra.0.is_empty() {
                        bytes.extend_from_slice(&extra.0);
                        applied += 1;
                    }
                }
                _ => {}
            }
        }
        (bytes, applied)
    }
}
