//! Checks for `astria-sequencer-relayer`: C12 (batching), C07 part B (relayer -> conductor data
//! path + tamper oracle), C11 (crash/restart fault enumeration).

mod blocks;
mod c07;
mod c11;
mod c12;
mod decode;

fn main() {
    let (id, args) = vcommon::split_args();
    match id.as_str() {
        "C12" => c12::run(&args),
        "C07" => c07::run(&args),
        "C11" => c11::run(&args),
        other => {
            eprintln!("vrelayer does not host property {other}");
            std::process::exit(2);
        }
    }
}
