//! Abstract sequencer blocks (plain data, serialisable) and their materialisation through the
//! public `astria_core` API. Shared by C12, C07 (part B) and C11.
//!
//! Everything is a pure function of the spec: the signing key, proposer, timestamps and block
//! hashes are derived from the height; "incompressible" payload bytes are a xorshift64* expansion
//! of a generated 64-bit seed.

use astria_core::{
    crypto::SigningKey,
    primitive::v1::{
        Address,
        RollupId,
        TransactionId,
    },
    protocol::test_utils::{
        ConfigureSequencerBlock,
        UnixTimeStamp,
    },
    sequencerblock::v1::{
        block::{
            self,
            Deposit,
            RollupData,
        },
        SequencerBlock,
    },
};
use proptest::prelude::*;
use serde::{
    Deserialize,
    Serialize,
};
use sha2::{
    Digest as _,
    Sha256,
};
use vcommon::gen::HexBytes;

pub const SEQUENCER_CHAIN_ID: &str = "verif-sequencer";
pub const ROLLUP_POOL: usize = 8;

/// The fixed pool of rollup ids blocks draw from. Hash-derived so that their base64 forms contain
/// `+` and `/`.
pub fn rollup_id(index: usize) -> RollupId {
    RollupId::from_unhashed_bytes(format!("verif-rollup-{index}"))
}

/// An id that never occurs in a generated block.
pub fn outsider_rollup_id() -> RollupId {
    RollupId::from_unhashed_bytes("verif-rollup-outsider")
}

#[derive(Clone, Debug, Serialize, Deserialize, PartialEq, Eq)]
pub enum PayloadSpec {
    Empty,
    Literal(HexBytes),
    /// `len` copies of `byte` (highly compressible)
    Repeat { byte: u8, len: u32 },
    /// `len` bytes of xorshift64* output seeded with `seed` (incompressible)
    Random { seed: u64, len: u32 },
}

impl PayloadSpec {
    pub fn len(&self) -> usize {
        match self {
            PayloadSpec::Empty => 0,
            PayloadSpec::Literal(bytes) => bytes.0.len(),
            PayloadSpec::Repeat {
                len, ..
            }
            | PayloadSpec::Random {
                len, ..
            } => *len as usize,
        }
    }

    pub fn is_incompressible(&self) -> bool {
        matches!(self, PayloadSpec::Random { .. })
    }

    pub fn bytes(&self) -> Vec<u8> {
        match self {
            PayloadSpec::Empty => Vec::new(),
            PayloadSpec::Literal(bytes) => bytes.0.clone(),
            PayloadSpec::Repeat {
                byte,
                len,
            } => vec![*byte; *len as usize],
            PayloadSpec::Random {
                seed,
                len,
            } => xorshift_bytes(*seed, *len as usize),
        }
    }
}

pub fn xorshift_bytes(seed: u64, len: usize) -> Vec<u8> {
    // xorshift64*; the state must not be zero
    let mut state = seed ^ 0x9E37_79B9_7F4A_7C15;
    if state == 0 {
        state = 0x2545_F491_4F6C_DD1D;
    }
    let mut out = Vec::with_capacity(len + 8);
    while out.len() < len {
        state ^= state >> 12;
        state ^= state << 25;
        state ^= state >> 27;
        out.extend_from_slice(&state.wrapping_mul(0x2545_F491_4F6C_DD1D).to_le_bytes());
    }
    out.truncate(len);
    out
}

#[derive(Clone, Debug, Serialize, Deserialize, PartialEq, Eq)]
pub struct DepositSpec {
    /// index into the rollup pool
    pub rollup: u8,
    pub amount: u64,
    pub tag: u8,
}

#[derive(Clone, Debug, Serialize, Deserialize, PartialEq, Eq)]
pub struct BlockSpec {
    /// rollup data submissions in transaction order: (index into the rollup pool, payload)
    pub submissions: Vec<(u8, PayloadSpec)>,
    pub deposits: Vec<DepositSpec>,
    /// bit 0: with aspen upgrade hashes, bit 1: with extended commit info
    pub flavour: u8,
}

impl BlockSpec {
    pub fn incompressible_bytes(&self) -> usize {
        self.submissions
            .iter()
            .filter(|(_, p)| p.is_incompressible())
            .map(|(_, p)| p.len())
            .sum()
    }

    /// The pool indices of the rollups that have data in this block, ascending.
    pub fn rollups(&self) -> Vec<usize> {
        let mut present = [false; ROLLUP_POOL];
        for (r, _) in &self.submissions {
            present[*r as usize % ROLLUP_POOL] = true;
        }
        for d in &self.deposits {
            present[d.rollup as usize % ROLLUP_POOL] = true;
        }
        (0..ROLLUP_POOL).filter(|i| present[*i]).collect()
    }

    /// The model of what a rollup must receive for this block: its submissions' payloads in
    /// transaction order, then its deposits in order (DESIGN C07).
    pub fn expected_rollup_data(&self, height: u32, rollup: usize) -> Vec<RollupData> {
        let mut out = Vec::new();
        for (r, payload) in &self.submissions {
            if *r as usize % ROLLUP_POOL == rollup {
                out.push(RollupData::SequencedData(payload.bytes().into()));
            }
        }
        for (i, d) in self.deposits.iter().enumerate() {
            if d.rollup as usize % ROLLUP_POOL == rollup {
                out.push(RollupData::Deposit(Box::new(deposit(height, i, d))));
            }
        }
        out
    }
}

fn deposit(height: u32, index: usize, spec: &DepositSpec) -> Deposit {
    let mut tx_id = [spec.tag; 32];
    tx_id[..4].copy_from_slice(&height.to_le_bytes());
    Deposit {
        bridge_address: Address::builder()
            .array([spec.tag; 20])
            .prefix("astria")
            .try_build()
            .expect("20 bytes and a valid prefix"),
        rollup_id: rollup_id(spec.rollup as usize % ROLLUP_POOL),
        amount: u128::from(spec.amount),
        asset: "nria".parse().expect("valid denom"),
        destination_chain_address: format!("0xdest{:02x}", spec.tag),
        source_transaction_id: TransactionId::new(tx_id),
        source_action_index: index as u64,
    }
}

pub fn block_hash(height: u32) -> [u8; 32] {
    let mut hasher = Sha256::new();
    hasher.update(b"verif-block-hash");
    hasher.update(height.to_le_bytes());
    hasher.finalize().into()
}

/// Builds the block through `ConfigureSequencerBlock` (`SequencerBlockBuilder` underneath).
pub fn make_block(height: u32, spec: &BlockSpec) -> SequencerBlock {
    let signing_key = SigningKey::from([7_u8; 32]);
    ConfigureSequencerBlock {
        block_hash: Some(block::Hash::new(block_hash(height))),
        chain_id: Some(SEQUENCER_CHAIN_ID.to_string()),
        height,
        proposer_address: Some(
            tendermint::account::Id::try_from(vec![3_u8; 20]).expect("20 bytes"),
        ),
        signing_key: Some(signing_key),
        sequence_data: spec
            .submissions
            .iter()
            .map(|(r, payload)| (rollup_id(*r as usize % ROLLUP_POOL), payload.bytes()))
            .collect(),
        deposits: spec
            .deposits
            .iter()
            .enumerate()
            .map(|(i, d)| deposit(height, i, d))
            .collect(),
        unix_timestamp: UnixTimeStamp {
            secs: 1_700_000_000 + i64::from(height),
            nanos: 0,
        },
        use_data_items: true,
        with_aspen: spec.flavour & 1 != 0,
        with_extended_commit_info: spec.flavour & 2 != 0,
    }
    .make()
}

// ---------------------------------------------------------------------------------------------
// strategies
// ---------------------------------------------------------------------------------------------

pub fn small_payload() -> BoxedStrategy<PayloadSpec> {
    prop_oneof![
        2 => Just(PayloadSpec::Empty),
        5 => proptest::collection::vec(any::<u8>(), 1..48).prop_map(|v| PayloadSpec::Literal(HexBytes(v))),
        2 => (any::<u8>(), 1_u32..4000).prop_map(|(byte, len)| PayloadSpec::Repeat { byte, len }),
        2 => (any::<u64>(), 1_u32..3000).prop_map(|(seed, len)| PayloadSpec::Random { seed, len }),
    ]
    .boxed()
}

pub fn deposit_spec() -> impl Strategy<Value = DepositSpec> {
    (0_u8..ROLLUP_POOL as u8, any::<u64>(), any::<u8>()).prop_map(|(rollup, amount, tag)| {
        DepositSpec {
            rollup,
            amount,
            tag,
        }
    })
}

/// A block with 0..=8 rollups and small payloads (a few KB at most).
pub fn small_block() -> BoxedStrategy<BlockSpec> {
    small_block_with(4)
}

/// `deposit_weight` out of `deposit_weight + 5` blocks carry 1..=3 deposits.
pub fn small_block_with(deposit_weight: u32) -> BoxedStrategy<BlockSpec> {
    (
        prop_oneof![
            2 => Just(Vec::new()),
            6 => proptest::collection::vec((0_u8..ROLLUP_POOL as u8, small_payload()), 1..6),
            3 => proptest::collection::vec((0_u8..ROLLUP_POOL as u8, small_payload()), 6..20),
        ],
        prop_oneof![
            5 => Just(Vec::new()),
            deposit_weight => proptest::collection::vec(deposit_spec(), 1..4),
        ],
        0_u8..4,
    )
        .prop_map(|(submissions, deposits, flavour)| BlockSpec {
            submissions,
            deposits,
            flavour,
        })
        .boxed()
}

/// A block carrying about `total` incompressible bytes split over 1..=3 submissions, plus a few
/// small ones.
pub fn heavy_block(total: impl Strategy<Value = u32> + 'static) -> BoxedStrategy<BlockSpec> {
    (
        total,
        1_usize..=3,
        proptest::collection::vec((0_u8..ROLLUP_POOL as u8, any::<u64>()), 3),
        proptest::collection::vec((0_u8..ROLLUP_POOL as u8, small_payload()), 0..3),
        prop_oneof![3 => Just(Vec::new()), 1 => proptest::collection::vec(deposit_spec(), 1..3)],
        0_u8..4,
    )
        .prop_map(|(total, parts, seeds, extra, deposits, flavour)| {
            let mut submissions = Vec::new();
            let share = total / parts as u32;
            for (i, (rollup, seed)) in seeds.into_iter().take(parts).enumerate() {
                let len = if i + 1 == parts {
                    total - share * (parts as u32 - 1)
                } else {
                    share
                };
                submissions.push((
                    rollup,
                    PayloadSpec::Random {
                        seed,
                        len,
                    },
                ));
            }
            submissions.extend(extra);
            BlockSpec {
                submissions,
                deposits,
                flavour,
            }
        })
        .boxed()
}
