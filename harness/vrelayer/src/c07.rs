//! C07 part B — rollup data is complete, ordered and provable on the relayer -> conductor path,
//! and every single-element tampering of the published form is rejected by the receiver.
//!
//! Blocks are built with the public `astria_core` builder, pushed through the relayer's real
//! conversion (`verif::convert`) or the real batcher (`verif::Batcher`), and decoded the way
//! conductor does. Oracle 1 (model): per rollup the decoded transactions are the block's
//! submission payloads in order followed by its deposits in order. Oracle 2 (metamorphic): a
//! mutated entry must fail the receiver-side verification — for rollup data the Merkle audit
//! against the `rollup_transactions_root` of the metadata with the entry's block hash (conductor's
//! `reconstruct.rs`), for metadata `SubmittedMetadata::try_from_raw`.

use std::collections::BTreeMap;

use astria_core::{
    generated::astria::sequencerblock::v1 as raw,
    primitive::v1::RollupId,
    sequencerblock::v1::{
        SubmittedMetadata,
        SubmittedRollupData,
    },
};
use astria_sequencer_relayer::verif::{
    self,
    Batcher,
    Offer,
};
use bytes::Bytes;
use proptest::prelude::*;
use serde::{
    Deserialize,
    Serialize,
};
use vcommon::{
    gen::pick_index,
    vensure,
    vfail,
    CaseResult,
    Ctx,
    Prop,
    Session,
    Tier,
};

use crate::{
    blocks::{
        make_block,
        outsider_rollup_id,
        rollup_id,
        small_block_with,
        BlockSpec,
        ROLLUP_POOL,
    },
    c12::{
        check_submission,
        expected_of,
        filter_spec,
        rollup_namespace,
        sequencer_namespace,
        FilterSpec,
    },
    decode::{
        decode_metadata_like_conductor,
        decode_rollup_like_conductor,
        verify_rollup_data_against_metadata,
    },
};

#[derive(Clone, Debug, Serialize, Deserialize)]
pub enum Tamper {
    /// flip one bit of one payload byte
    ByteFlip { entry: u16, tx: u16, pos: u16, bit: u8 },
    /// swap two different payloads of one rollup entry
    SwapPayloads { entry: u16, a: u16, b: u16 },
    /// drop the last payload
    TruncateList { entry: u16 },
    /// drop the last byte of a payload
    TruncateTx { entry: u16, tx: u16 },
    /// append a copy of one of the entry's payloads (or a fresh byte string if it has none)
    ExtendList { entry: u16, tx: u16 },
    /// append a byte to a payload
    ExtendTx { entry: u16, tx: u16, byte: u8 },
    /// claim the entry for another rollup
    ChangeRollupId { entry: u16, to: u8 },
    /// give the entry the proof of another rollup's entry of the same block
    SwapProofs { entry: u16, other: u16 },
    /// present the entry under another block's hash (so it is matched against that block's root)
    Transplant { entry: u16, block: u16 },
    /// metadata: drop / add / swap / replace an element of the rollup-id list
    DropRollupId { block: u16, pos: u16 },
    AddRollupId { block: u16, pos: u16, id: u8 },
    SwapRollupIds { block: u16, a: u16, b: u16 },
    ReplaceRollupId { block: u16, pos: u16, id: u8 },
}

impl Tamper {
    fn label(&self) -> &'static str {
        match self {
            Tamper::ByteFlip { .. } => "byte-flip",
            Tamper::SwapPayloads { .. } => "swap-payloads",
            Tamper::TruncateList { .. } => "truncate-list",
            Tamper::TruncateTx { .. } => "truncate-tx",
            Tamper::ExtendList { .. } => "extend-list",
            Tamper::ExtendTx { .. } => "extend-tx",
            Tamper::ChangeRollupId { .. } => "change-rollup-id",
            Tamper::SwapProofs { .. } => "swap-proofs",
            Tamper::Transplant { .. } => "transplant",
            Tamper::DropRollupId { .. } => "ids-drop",
            Tamper::AddRollupId { .. } => "ids-add",
            Tamper::SwapRollupIds { .. } => "ids-swap",
            Tamper::ReplaceRollupId { .. } => "ids-replace",
        }
    }
}

#[derive(Clone, Debug, Serialize, Deserialize)]
pub struct Published {
    pub first_height: u32,
    pub blocks: Vec<BlockSpec>,
    pub filter: FilterSpec,
    /// go through the batcher (`NextSubmission`) instead of the bare conversion
    pub via_batcher: bool,
    pub tampers: Vec<Tamper>,
}

/// pool id by index, index `ROLLUP_POOL` is the outsider
fn id_by_index(index: u8) -> RollupId {
    let index = index as usize % (ROLLUP_POOL + 1);
    if index == ROLLUP_POOL {
        outsider_rollup_id()
    } else {
        rollup_id(index)
    }
}

/// The receiver's verdict on a (possibly tampered) rollup entry given the published metadata.
fn receiver_accepts_rollup_entry(
    entry: raw::SubmittedRollupData,
    metadata: &[SubmittedMetadata],
) -> bool {
    let Ok(entry) = SubmittedRollupData::try_from_raw(entry) else {
        return false;
    };
    metadata
        .iter()
        .filter(|m| m.block_hash() == entry.sequencer_block_hash())
        .any(|m| verify_rollup_data_against_metadata(&entry, m))
}

fn published_case(case: &Published, ctx: &mut Ctx) -> CaseResult {
    let rt = tokio::runtime::Builder::new_current_thread()
        .enable_all()
        .start_paused(true)
        .build()
        .expect("runtime");
    let _guard = rt.enter();

    ctx.label(case.filter.label());
    let filter = match case.filter.build() {
        Ok(filter) => filter,
        Err(error) => vfail!("filter-rejected", "a valid rollup filter was rejected: {error}"),
    };
    let mut expected = BTreeMap::new();
    let mut blocks = Vec::new();
    for (i, spec) in case.blocks.iter().enumerate() {
        let height = case.first_height.saturating_add(i as u32);
        let block = make_block(height, spec);
        expected.insert(u64::from(height), expected_of(spec, &block));
        blocks.push(block);
    }

    // ---- relayer side (real code) ----
    let blobs = if case.via_batcher {
        ctx.label("via:batcher");
        let mut batcher = match Batcher::new(filter) {
            Ok(batcher) => batcher,
            Err(error) => vfail!("harness-batcher", "cannot construct the batcher: {error}"),
        };
        for block in blocks {
            let height = block.height();
            match batcher.offer(block) {
                Offer::Accepted {
                    pending: false,
                } => {}
                other => vfail!(
                    "add-failed",
                    "a block of a few KB at height {height} was not added: {other:?}"
                ),
            }
        }
        match batcher.take() {
            Some((submission, Ok(()))) => submission.blobs,
            Some((_, Err(error))) => vfail!("add-failed", "re-adding failed: {error}"),
            None => vfail!("block-lost", "nothing can be taken after adding blocks"),
        }
    } else {
        ctx.label("via:convert");
        match verif::convert(blocks, &filter) {
            Ok(payload) => payload.blobs,
            Err(error) => vfail!("conversion-failed", "converting valid blocks failed: {error}"),
        }
    };

    // ---- receiver side: completeness, order, provability (shared with C12) ----
    let heights = check_submission(&blobs, &expected, case.filter, usize::MAX)?;
    let want: Vec<u64> = expected.keys().copied().collect();
    vensure!(
        heights == want,
        "block-lost",
        "published heights {heights:?}, converted heights {want:?}"
    );

    // ---- tamper oracle ----
    let seq_ns = sequencer_namespace();
    let metadata = decode_metadata_like_conductor(&blobs, seq_ns).metadata;
    // every published rollup entry, in a canonical order (rollup pool index, then block order)
    let mut entries: Vec<SubmittedRollupData> = Vec::new();
    for rollup in 0..ROLLUP_POOL {
        entries.extend(decode_rollup_like_conductor(&blobs, rollup_namespace(rollup)).rollup_data);
    }
    for entry in &entries {
        vensure!(
            receiver_accepts_rollup_entry(entry.clone().into_raw(), &metadata),
            "valid-data-rejected",
            "the receiver-side verification rejects an untampered rollup entry"
        );
    }

    let mut applied = 0_usize;
    for tamper in &case.tampers {
        let label = tamper.label();
        let accepted: Option<(bool, String)> = match tamper {
            Tamper::DropRollupId { block, .. }
            | Tamper::AddRollupId { block, .. }
            | Tamper::SwapRollupIds { block, .. }
            | Tamper::ReplaceRollupId { block, .. } => {
                let b = pick_index(*block, metadata.len());
                let mut raw_meta = metadata[b].clone().into_raw();
                let ids = &mut raw_meta.rollup_ids;
                let before = ids.clone();
                match tamper {
                    Tamper::DropRollupId { pos, .. } => {
                        if !ids.is_empty() {
                            ids.remove(pick_index(*pos, ids.len()));
                        }
                    }
                    Tamper::AddRollupId { pos, id, .. } => {
                        let at = pick_index(*pos, ids.len() + 1);
                        ids.insert(at, id_by_index(*id).into_raw());
                    }
                    Tamper::SwapRollupIds { a, b, .. } => {
                        if ids.len() >= 2 {
                            let (x, y) = (pick_index(*a, ids.len()), pick_index(*b, ids.len()));
                            ids.swap(x, y);
                        }
                    }
                    Tamper::ReplaceRollupId { pos, id, .. } => {
                        if !ids.is_empty() {
                            let at = pick_index(*pos, ids.len());
                            ids[at] = id_by_index(*id).into_raw();
                        }
                    }
                    _ => unreachable!(),
                }
                if *ids == before {
                    None
                } else {
                    let n = ids.len();
                    Some((
                        SubmittedMetadata::try_from_raw(raw_meta).is_ok(),
                        format!(
                            "metadata of block {b} with its rollup-id list altered ({} -> {n} ids)",
                            before.len()
                        ),
                    ))
                }
            }
            _ if entries.is_empty() => None,
            Tamper::ByteFlip { entry, tx, pos, bit } => {
                let e = pick_index(*entry, entries.len());
                let mut raw_entry = entries[e].clone().into_raw();
                if raw_entry.transactions.is_empty() {
                    None
                } else {
                    let t = pick_index(*tx, raw_entry.transactions.len());
                    let mut bytes = raw_entry.transactions[t].to_vec();
                    if bytes.is_empty() {
                        None
                    } else {
                        let p = pick_index(*pos, bytes.len());
                        bytes[p] ^= 1 << (bit % 8);
                        raw_entry.transactions[t] = Bytes::from(bytes);
                        Some((
                            receiver_accepts_rollup_entry(raw_entry, &metadata),
                            format!("entry {e}: bit {bit} of byte {p} of payload {t} flipped"),
                        ))
                    }
                }
            }
            Tamper::SwapPayloads { entry, a, b } => {
                let e = pick_index(*entry, entries.len());
                let mut raw_entry = entries[e].clone().into_raw();
                let n = raw_entry.transactions.len();
                if n < 2 {
                    None
                } else {
                    let (x, y) = (pick_index(*a, n), pick_index(*b, n));
                    if raw_entry.transactions[x] == raw_entry.transactions[y] {
                        None
                    } else {
                        raw_entry.transactions.swap(x, y);
                        Some((
                            receiver_accepts_rollup_entry(raw_entry, &metadata),
                            format!("entry {e}: payloads {x} and {y} swapped"),
                        ))
                    }
                }
            }
            Tamper::TruncateList { entry } => {
                let e = pick_index(*entry, entries.len());
                let mut raw_entry = entries[e].clone().into_raw();
                if raw_entry.transactions.pop().is_none() {
                    None
                } else {
                    Some((
                        receiver_accepts_rollup_entry(raw_entry, &metadata),
                        format!("entry {e}: last payload dropped"),
                    ))
                }
            }
            Tamper::TruncateTx { entry, tx } => {
                let e = pick_index(*entry, entries.len());
                let mut raw_entry = entries[e].clone().into_raw();
                if raw_entry.transactions.is_empty() {
                    None
                } else {
                    let t = pick_index(*tx, raw_entry.transactions.len());
                    let mut bytes = raw_entry.transactions[t].to_vec();
                    if bytes.pop().is_none() {
                        None
                    } else {
                        raw_entry.transactions[t] = Bytes::from(bytes);
                        Some((
                            receiver_accepts_rollup_entry(raw_entry, &metadata),
                            format!("entry {e}: last byte of payload {t} dropped"),
                        ))
                    }
                }
            }
            Tamper::ExtendList { entry, tx } => {
                let e = pick_index(*entry, entries.len());
                let mut raw_entry = entries[e].clone().into_raw();
                let extra = if raw_entry.transactions.is_empty() {
                    Bytes::from_static(b"extra")
                } else {
                    raw_entry.transactions[pick_index(*tx, raw_entry.transactions.len())].clone()
                };
                raw_entry.transactions.push(extra);
                Some((
                    receiver_accepts_rollup_entry(raw_entry, &metadata),
                    format!("entry {e}: a payload appended"),
                ))
            }
            Tamper::ExtendTx { entry, tx, byte } => {
                let e = pick_index(*entry, entries.len());
                let mut raw_entry = entries[e].clone().into_raw();
                if raw_entry.transactions.is_empty() {
                    None
                } else {
                    let t = pick_index(*tx, raw_entry.transactions.len());
                    let mut bytes = raw_entry.transactions[t].to_vec();
                    bytes.push(*byte);
                    raw_entry.transactions[t] = Bytes::from(bytes);
                    Some((
                        receiver_accepts_rollup_entry(raw_entry, &metadata),
                        format!("entry {e}: byte {byte:#x} appended to payload {t}"),
                    ))
                }
            }
            Tamper::ChangeRollupId { entry, to } => {
                let e = pick_index(*entry, entries.len());
                let mut raw_entry = entries[e].clone().into_raw();
                let new_id = id_by_index(*to);
                if new_id == entries[e].rollup_id() {
                    None
                } else {
                    raw_entry.rollup_id = Some(new_id.into_raw());
                    Some((
                        receiver_accepts_rollup_entry(raw_entry, &metadata),
                        format!("entry {e}: rollup id changed"),
                    ))
                }
            }
            Tamper::SwapProofs { entry, other } => {
                let e = pick_index(*entry, entries.len());
                // candidates: entries of the same block belonging to another rollup
                let others: Vec<usize> = (0..entries.len())
                    .filter(|o| {
                        *o != e
                            && entries[*o].sequencer_block_hash()
                                == entries[e].sequencer_block_hash()
                    })
                    .collect();
                if others.is_empty() {
                    None
                } else {
                    let o = others[pick_index(*other, others.len())];
                    let mut raw_entry = entries[e].clone().into_raw();
                    let other_proof = entries[o].clone().into_raw().proof;
                    if other_proof == raw_entry.proof {
                        None
                    } else {
                        raw_entry.proof = other_proof;
                        Some((
                            receiver_accepts_rollup_entry(raw_entry, &metadata),
                            format!("entry {e} presented with the proof of entry {o}"),
                        ))
                    }
                }
            }
            Tamper::Transplant { entry, block } => {
                let e = pick_index(*entry, entries.len());
                let b = pick_index(*block, metadata.len());
                let own = metadata
                    .iter()
                    .find(|m| m.block_hash() == entries[e].sequencer_block_hash());
                let target = &metadata[b];
                match own {
                    Some(own)
                        if own.block_hash() != target.block_hash()
                            && own.rollup_transactions_root()
                                != target.rollup_transactions_root() =>
                    {
                        let mut raw_entry = entries[e].clone().into_raw();
                        raw_entry.sequencer_block_hash =
                            Bytes::copy_from_slice(target.block_hash().as_bytes());
                        Some((
                            receiver_accepts_rollup_entry(raw_entry, &metadata),
                            format!(
                                "entry {e} transplanted to block {b} (height {})",
                                target.height()
                            ),
                        ))
                    }
                    // same block, or a block with an identical rollup-transactions root
                    _ => None,
                }
            }
        };
        match accepted {
            None => ctx.label(format!("skipped:{label}")),
            Some((accepted, detail)) => {
                applied += 1;
                ctx.label(format!("applied:{label}"));
                vensure!(
                    !accepted,
                    format!("tamper-accepted:{label}"),
                    "the receiver-side verification accepts a tampered value: {detail}"
                );
            }
        }
    }

    let max_rollups = case.blocks.iter().map(|b| b.rollups().len()).max().unwrap_or(0);
    let deposits: usize = case.blocks.iter().map(|b| b.deposits.len()).sum();
    ctx.note("applied_tampers", applied);
    ctx.set_nontrivial(max_rollups >= 2 && deposits >= 1 && applied >= 1);
    Ok(())
}

fn tamper() -> impl Strategy<Value = Tamper> {
    let s = any::<u16>;
    prop_oneof![
        3 => (s(), s(), s(), 0_u8..8).prop_map(|(entry, tx, pos, bit)| Tamper::ByteFlip { entry, tx, pos, bit }),
        2 => (s(), s(), s()).prop_map(|(entry, a, b)| Tamper::SwapPayloads { entry, a, b }),
        1 => s().prop_map(|entry| Tamper::TruncateList { entry }),
        1 => (s(), s()).prop_map(|(entry, tx)| Tamper::TruncateTx { entry, tx }),
        1 => (s(), s()).prop_map(|(entry, tx)| Tamper::ExtendList { entry, tx }),
        1 => (s(), s(), any::<u8>()).prop_map(|(entry, tx, byte)| Tamper::ExtendTx { entry, tx, byte }),
        2 => (s(), 0_u8..=ROLLUP_POOL as u8).prop_map(|(entry, to)| Tamper::ChangeRollupId { entry, to }),
        2 => (s(), s()).prop_map(|(entry, other)| Tamper::SwapProofs { entry, other }),
        2 => (s(), s()).prop_map(|(entry, block)| Tamper::Transplant { entry, block }),
        1 => (s(), s()).prop_map(|(block, pos)| Tamper::DropRollupId { block, pos }),
        1 => (s(), s(), 0_u8..=ROLLUP_POOL as u8).prop_map(|(block, pos, id)| Tamper::AddRollupId { block, pos, id }),
        1 => (s(), s(), s()).prop_map(|(block, a, b)| Tamper::SwapRollupIds { block, a, b }),
        1 => (s(), s(), 0_u8..=ROLLUP_POOL as u8).prop_map(|(block, pos, id)| Tamper::ReplaceRollupId { block, pos, id }),
    ]
}

fn published(tier: Tier) -> BoxedStrategy<Published> {
    (
        1_u32..100_000,
        proptest::collection::vec(small_block_with(12), 1..=tier.pick(4, 8)),
        filter_spec(),
        any::<bool>(),
        proptest::collection::vec(tamper(), 6..=20),
    )
        .prop_map(|(first_height, blocks, filter, via_batcher, tampers)| Published {
            first_height,
            blocks,
            filter,
            via_batcher,
            tampers,
        })
        .boxed()
}

pub fn run(args: &[String]) -> ! {
    let mut s = Session::from_args("C07", "exploration", args);
    s.assume(
        "part B (relayer -> conductor path): blocks are built with astria_core's public \
         SequencerBlockBuilder (via ConfigureSequencerBlock), not by a running sequencer (part A)",
    );
    s.assume(format!(
        "receiver side = decode_like_conductor ({}) + the Merkle audit of conductor's \
         reconstruct.rs against the rollup_transactions_root of the metadata with the entry's \
         block hash; metadata is verified by SubmittedMetadata::try_from_raw. Verification of \
         the metadata against CometBFT commits is C09",
        crate::decode::DECODER
    ));
    s.assume("SHA-256 is collision resistant (an accepted tampered value is a violation)");
    s.run_prop(Prop {
        name: "relayer_publish_tamper",
        rule: "1..=4 (thorough 8) blocks with 0..=8 rollups, empty/duplicate/compressible/random \
               payloads and deposits, a rollup filter (all/subset/none), published through the \
               relayer's real conversion or batcher; per-rollup decoded data == model (payloads in \
               order, then deposits); then 6..=20 single-element tampers (byte flip, swap of two \
               different payloads, truncate/extend list or payload, change rollup id, swap proofs \
               between rollups of a block, transplant to another block with a different root, \
               drop/add/swap/replace in the rollup-id list) must be rejected; value-preserving \
               tampers are skipped and counted. Non-trivial: a block with >= 2 rollups, >= 1 \
               deposit, >= 1 applied tamper",
        cases_quick: 30_000,
        cases_thorough: 600_000,
        shards: 12,
        min_nontrivial: 0.5,
        max_shrink_iters: 2000,
        strategy: Box::new(published),
        test: Box::new(published_case),
    });
    s.finish()
}
