//! C12 — relayer batching is exact, ordered and bounded.
//!
//! Driver: the real `BlobSubmitter` batching state through `astria_sequencer_relayer::verif::
//! Batcher` (real `NextSubmission::try_add` / `take`, real `has_capacity`, real
//! `add_sequencer_block_to_next_submission` with its `pending_block` protocol).
//!
//! Oracle (all independent of the relayer's own bookkeeping):
//! * the heights decoded from the metadata blobs of all taken submissions, concatenated in take
//!   order, are exactly the heights that were handed over, each once, strictly increasing;
//! * the compressed size *recomputed from the produced blobs* is `<= MAX_PAYLOAD_SIZE_BYTES` unless
//!   the submission holds a single block;
//! * decoding the blobs the way conductor does yields, per block, the metadata of
//!   `SequencerBlock::split_for_celestia` (never dropped by the filter) and, per rollup, exactly the
//!   block's data if a harness-side model of the filter includes the rollup and nothing otherwise;
//!   every rollup entry's proof verifies against its block's `rollup_transactions_root`; decoded
//!   transactions equal the payloads/deposits of the abstract block spec.

use std::collections::{
    BTreeMap,
    BTreeSet,
    VecDeque,
};

use astria_core::{
    generated::astria::sequencerblock::v1 as raw,
    sequencerblock::v1::{
        block::RollupData,
        SequencerBlock,
    },
};
use astria_sequencer_relayer::verif::{
    self,
    Batcher,
    Offer,
    TakenSubmission,
};
use celestia_types::nmt::Namespace;
use proptest::prelude::*;
use prost::Message as _;
use serde::{
    Deserialize,
    Serialize,
};
use vcommon::{
    vensure,
    vfail,
    CaseResult,
    Ctx,
    Prop,
    Session,
    Tier,
};

use crate::{
    blocks::{
        heavy_block,
        make_block,
        outsider_rollup_id,
        rollup_id,
        small_block,
        BlockSpec,
        PayloadSpec,
        ROLLUP_POOL,
        SEQUENCER_CHAIN_ID,
    },
    decode::{
        self,
        decode_like_conductor,
        decode_metadata_like_conductor,
        find_matching_metadata,
    },
};

#[derive(Clone, Copy, Debug, Serialize, Deserialize, PartialEq, Eq)]
pub enum FilterSpec {
    /// the empty filter: every rollup is included
    All,
    /// only the pool rollups whose bit is set (mask 0 = none of the rollups that occur)
    Only(u8),
}

impl FilterSpec {
    /// The harness-side model of the filter.
    pub fn includes(self, rollup: usize) -> bool {
        match self {
            FilterSpec::All => true,
            FilterSpec::Only(mask) => mask & (1 << rollup) != 0,
        }
    }

    pub fn build(self) -> Result<astria_sequencer_relayer::IncludeRollup, String> {
        match self {
            FilterSpec::All => verif::include_rollups(&[]),
            FilterSpec::Only(mask) => {
                // the outsider id keeps the configured set non-empty (an empty set means "all")
                let mut ids = vec![outsider_rollup_id()];
                ids.extend((0..ROLLUP_POOL).filter(|r| mask & (1 << r) != 0).map(rollup_id));
                verif::include_rollups(&ids)
            }
        }
    }

    pub fn label(self) -> &'static str {
        match self {
            FilterSpec::All => "filter:all",
            FilterSpec::Only(0) => "filter:none",
            FilterSpec::Only(0xff) => "filter:every-id-listed",
            FilterSpec::Only(_) => "filter:subset",
        }
    }
}

pub fn filter_spec() -> BoxedStrategy<FilterSpec> {
    prop_oneof![
        4 => Just(FilterSpec::All),
        // most rollups included
        3 => (any::<u8>(), any::<u8>()).prop_map(|(a, b)| FilterSpec::Only(a | b)),
        2 => any::<u8>().prop_map(FilterSpec::Only),
        1 => Just(FilterSpec::Only(0)),
    ]
    .boxed()
}

#[derive(Clone, Debug, Serialize, Deserialize)]
pub struct Stream {
    pub first_height: u32,
    pub blocks: Vec<BlockSpec>,
    pub filter: FilterSpec,
    /// number of blocks offered before each `take`; afterwards everything is drained
    pub schedule: Vec<u8>,
}

/// The expected published form of one block, from `SequencerBlock::split_for_celestia`.
pub struct Expected {
    pub spec: BlockSpec,
    pub metadata: raw::SubmittedMetadata,
    /// per pool index
    pub rollup_data: BTreeMap<usize, raw::SubmittedRollupData>,
}

pub fn expected_of(spec: &BlockSpec, block: &SequencerBlock) -> Expected {
    let (metadata, rollup_data) = block.clone().split_for_celestia();
    let mut by_rollup = BTreeMap::new();
    for entry in rollup_data {
        let index = (0..ROLLUP_POOL)
            .find(|r| rollup_id(*r) == entry.rollup_id())
            .expect("blocks only draw from the pool");
        by_rollup.insert(index, entry.into_raw());
    }
    Expected {
        spec: spec.clone(),
        metadata: metadata.into_raw(),
        rollup_data: by_rollup,
    }
}

pub fn sequencer_namespace() -> Namespace {
    astria_core::celestia::namespace_v0_from_sha256_of_bytes(SEQUENCER_CHAIN_ID.as_bytes())
}

pub fn rollup_namespace(rollup: usize) -> Namespace {
    astria_core::celestia::namespace_v0_from_rollup_id(rollup_id(rollup))
}

/// Checks one taken submission against the expected forms of the blocks it must contain.
/// Returns the heights found in its metadata, in order.
pub fn check_submission(
    blobs: &[celestia_types::Blob],
    expected: &BTreeMap<u64, Expected>,
    filter: FilterSpec,
    limit: usize,
) -> Result<Vec<u64>, vcommon::Failure> {
    let seq_ns = sequencer_namespace();
    let decoded_meta = decode_metadata_like_conductor(blobs, seq_ns);
    vensure!(
        decoded_meta.dropped_blobs == 0,
        "blob-rejected-by-decoder",
        "a sequencer-namespace blob could not be decoded the way conductor does: {:?}",
        decoded_meta.drop_reasons
    );
    let metadata = decoded_meta.metadata;
    let heights: Vec<u64> = metadata.iter().map(|m| m.height().value()).collect();
    vensure!(
        !heights.is_empty(),
        "submission-without-metadata",
        "a taken submission contains no decodable block metadata"
    );

    let recomputed = decode::compressed_size(blobs);
    vensure!(
        recomputed <= limit || heights.len() == 1,
        "payload-exceeds-limit",
        "submission of {} blocks (heights {heights:?}) has a compressed payload of {recomputed} \
         bytes > limit {limit}",
        heights.len()
    );

    let mut blocks = Vec::new();
    for (m, h) in metadata.iter().zip(&heights) {
        let Some(exp) = expected.get(h) else {
            vfail!("unknown-block-in-submission", "metadata for height {h} was never handed over");
        };
        vensure!(
            m.clone().into_raw() == exp.metadata,
            "metadata-mismatch",
            "decoded metadata of height {h} differs from split_for_celestia's"
        );
        blocks.push((*h, exp));
    }

    let mut allowed_namespaces = BTreeSet::new();
    allowed_namespaces.insert(seq_ns.as_bytes().to_vec());
    for rollup in 0..ROLLUP_POOL {
        let ns = rollup_namespace(rollup);
        let both = decode_like_conductor(blobs, seq_ns, ns);
        vensure!(
            both.metadata.len() == metadata.len(),
            "blob-rejected-by-decoder",
            "decoding for rollup {rollup} yields {} metadata entries instead of {}",
            both.metadata.len(),
            metadata.len()
        );
        let decoded = both;
        vensure!(
            decoded.dropped_blobs == 0,
            "blob-rejected-by-decoder",
            "a blob in the namespace of rollup {rollup} could not be decoded the way conductor \
             does: {:?}",
            decoded.drop_reasons
        );
        let included = filter.includes(rollup);
        let want: Vec<(u64, &raw::SubmittedRollupData)> = blocks
            .iter()
            .filter(|_| included)
            .filter_map(|(h, exp)| exp.rollup_data.get(&rollup).map(|e| (*h, e)))
            .collect();
        if !included {
            vensure!(
                decoded.rollup_data.is_empty()
                    && !blobs.iter().any(|b| b.namespace == ns),
                "excluded-rollup-data-present",
                "rollup {rollup} is excluded by the filter but its namespace carries data"
            );
            continue;
        }
        if !want.is_empty() {
            allowed_namespaces.insert(ns.as_bytes().to_vec());
        }
        vensure!(
            decoded.rollup_data.len() == want.len(),
            "rollup-data-mismatch",
            "rollup {rollup}: {} entries decoded, {} expected (heights {:?})",
            decoded.rollup_data.len(),
            want.len(),
            want.iter().map(|(h, _)| *h).collect::<Vec<_>>()
        );
        // conductor matches rollup entries to metadata by block hash, so the order of the entries
        // of different blocks inside a blob carries no meaning: compare per block
        let mut by_block: BTreeMap<Vec<u8>, &astria_core::sequencerblock::v1::SubmittedRollupData> =
            BTreeMap::new();
        for got in &decoded.rollup_data {
            vensure!(
                by_block
                    .insert(got.sequencer_block_hash().as_bytes().to_vec(), got)
                    .is_none(),
                "rollup-data-duplicated",
                "rollup {rollup}: two entries for the same block in one submission"
            );
        }
        for (h, want) in &want {
            let Some(got) = by_block.get(&want.sequencer_block_hash[..]).copied() else {
                vfail!(
                    "rollup-data-mismatch",
                    "rollup {rollup}: no entry for the block at height {h} in the submission"
                );
            };
            vensure!(
                got.clone().into_raw() == **want,
                "rollup-data-mismatch",
                "rollup {rollup} at height {h}: decoded entry differs from split_for_celestia's"
            );
            vensure!(
                find_matching_metadata(got, &metadata).is_some(),
                "proof-does-not-verify",
                "rollup {rollup} at height {h}: no metadata in the submission has the entry's \
                 block hash and a root its proof leads to"
            );
            // model level: the transactions are the spec's payloads, then its deposits
            let model = expected[h].spec.expected_rollup_data(*h as u32, rollup);
            let decoded_txs: Option<Vec<RollupData>> = got
                .transactions()
                .iter()
                .map(|tx| {
                    raw::RollupData::decode(tx.as_ref())
                        .ok()
                        .and_then(|raw| RollupData::try_from_raw(raw).ok())
                })
                .collect();
            vensure!(
                decoded_txs.as_ref() == Some(&model),
                "rollup-data-differs-from-model",
                "rollup {rollup} at height {h}: decoded transactions are not the block's \
                 submissions followed by its deposits"
            );
        }
    }
    // with the real conductor code available: what conductor would forward to the rollup
    for rollup in (0..ROLLUP_POOL).filter(|r| filter.includes(*r)) {
        let Some(reconstructed) = decode::reconstruct_like_conductor(
            blobs,
            seq_ns,
            rollup_namespace(rollup),
            rollup_id(rollup),
        ) else {
            break;
        };
        for (h, exp) in &blocks {
            let want: Vec<bytes::Bytes> = exp
                .rollup_data
                .get(&rollup)
                .map(|e| e.transactions.clone())
                .unwrap_or_default();
            let got: Vec<&Vec<bytes::Bytes>> = reconstructed
                .iter()
                .filter(|(hash, _)| hash[..] == exp.metadata.block_hash[..])
                .map(|(_, txs)| txs)
                .collect();
            vensure!(
                got.len() == 1 && *got[0] == want,
                "conductor-reconstruction-mismatch",
                "rollup {rollup} at height {h}: conductor reconstructs {} block(s) with that hash \
                 and not exactly the block's {} transactions",
                got.len(),
                want.len()
            );
        }
    }
    for blob in blobs {
        vensure!(
            allowed_namespaces.contains(blob.namespace.as_bytes()),
            "unexpected-namespace",
            "a blob was published under a namespace that is neither the sequencer's nor an \
             included rollup's with data in this submission"
        );
    }
    Ok(heights)
}

/// Checks that `decoded` (heights of all submissions, concatenated) is exactly `handed`.
pub fn check_exactly_once(handed: &[u64], decoded: &[u64]) -> CaseResult {
    let mut seen = BTreeSet::new();
    for h in decoded {
        vensure!(
            seen.insert(*h),
            "block-duplicated",
            "height {h} appears in more than one place of the taken submissions {decoded:?}"
        );
    }
    for h in handed {
        vensure!(
            seen.contains(h),
            "block-lost",
            "height {h} was handed over but is in no taken submission (handed {handed:?}, \
             submitted {decoded:?})"
        );
    }
    vensure!(
        decoded.windows(2).all(|w| w[0] < w[1]),
        "height-order",
        "heights do not increase inside/across submissions: {decoded:?}"
    );
    vensure!(
        decoded.len() == handed.len(),
        "unknown-block-in-submission",
        "submitted {decoded:?} but handed over {handed:?}"
    );
    Ok(())
}

pub struct Driver {
    pub batcher: Batcher,
    pub queue: VecDeque<(u64, SequencerBlock)>,
    pub handed: Vec<u64>,
    pub taken: Vec<TakenSubmission>,
    pub full_rejections: usize,
    pub adds_after_full: usize,
}

impl Driver {
    pub fn offer(&mut self, ctx: &mut Ctx) -> Result<bool, vcommon::Failure> {
        let Some((height, block)) = self.queue.pop_front() else {
            ctx.label("noop:offer-without-block");
            return Ok(false);
        };
        match self.batcher.offer(block) {
            Offer::NoCapacity(block) => {
                ctx.label("offer:no-capacity");
                self.queue.push_front((height, *block));
                Ok(false)
            }
            Offer::Accepted {
                pending: false,
            } => {
                ctx.label("offer:added");
                self.handed.push(height);
                if self.full_rejections > 0 {
                    self.adds_after_full += 1;
                }
                Ok(true)
            }
            Offer::Accepted {
                pending: true,
            } => {
                ctx.label("offer:full");
                self.handed.push(height);
                self.full_rejections += 1;
                Ok(true)
            }
            Offer::Failed(error) => {
                vfail!(
                    "add-failed",
                    "adding the block at height {height} failed although a single block always \
                     fits: {error}"
                );
            }
        }
    }

    pub fn take(&mut self, ctx: &mut Ctx) -> Result<bool, vcommon::Failure> {
        let had_pending = self.batcher.pending_height();
        match self.batcher.take() {
            None => {
                ctx.label("noop:take-empty");
                Ok(false)
            }
            Some((submission, readd)) => {
                if let Err(error) = readd {
                    vfail!(
                        "add-failed",
                        "re-adding the pending block {had_pending:?} after a take failed: {error}"
                    );
                }
                if had_pending.is_some() && self.batcher.pending_height().is_none() {
                    self.adds_after_full += 1;
                }
                ctx.label(if submission.num_blocks == 1 {
                    "take:single-block"
                } else {
                    "take:multi-block"
                });
                self.taken.push(submission);
                Ok(true)
            }
        }
    }
}

fn stream_case(case: &Stream, ctx: &mut Ctx) -> CaseResult {
    // `Batcher::new` needs a runtime context (the inert tonic channel spawns its worker)
    let rt = tokio::runtime::Builder::new_current_thread()
        .enable_all()
        .start_paused(true)
        .build()
        .expect("runtime");
    let _guard = rt.enter();

    ctx.label(case.filter.label());
    let filter = match case.filter.build() {
        Ok(filter) => filter,
        Err(error) => vfail!("filter-rejected", "a valid rollup filter was rejected: {error}"),
    };
    let batcher = match Batcher::new(filter) {
        Ok(batcher) => batcher,
        Err(error) => vfail!("harness-batcher", "cannot construct the batcher: {error}"),
    };

    let mut expected = BTreeMap::new();
    let mut queue = VecDeque::new();
    for (i, spec) in case.blocks.iter().enumerate() {
        let height = case.first_height.saturating_add(i as u32);
        let block = make_block(height, spec);
        expected.insert(u64::from(height), expected_of(spec, &block));
        queue.push_back((u64::from(height), block));
    }
    let mut driver = Driver {
        batcher,
        queue,
        handed: Vec::new(),
        taken: Vec::new(),
        full_rejections: 0,
        adds_after_full: 0,
    };

    for offers in &case.schedule {
        for _ in 0..*offers {
            driver.offer(ctx)?;
        }
        driver.take(ctx)?;
    }
    // drain: hand over everything that is left, taking whenever the submitter has no capacity
    let mut guard = 0;
    while !driver.queue.is_empty() {
        guard += 1;
        vensure!(
            guard <= 4 * case.blocks.len() + 8,
            "no-progress",
            "blocks {:?} can neither be added nor does a take free capacity",
            driver.queue.iter().map(|(h, _)| *h).collect::<Vec<_>>()
        );
        if !driver.offer(ctx)? {
            driver.take(ctx)?;
        }
    }
    while driver.take(ctx)? {}
    vensure!(
        driver.batcher.pending_height().is_none(),
        "block-lost",
        "after draining, height {:?} is still parked as pending block and nothing can be taken",
        driver.batcher.pending_height()
    );

    let mut decoded_heights = Vec::new();
    for submission in &driver.taken {
        let heights = check_submission(
            &submission.blobs,
            &expected,
            case.filter,
            verif::MAX_PAYLOAD_SIZE_BYTES,
        )?;
        decoded_heights.extend(heights);
    }
    check_exactly_once(&driver.handed, &decoded_heights)?;

    let total: usize = case.blocks.iter().map(BlockSpec::incompressible_bytes).sum();
    ctx.note("submissions", driver.taken.len());
    ctx.note("full_rejections", driver.full_rejections);
    ctx.note("incompressible_bytes", total);
    ctx.label(format!("submissions:{}", driver.taken.len().min(5)));
    if case.blocks.iter().any(|b| b.rollups().is_empty()) {
        ctx.label("has-block-without-rollups");
    }
    if case.blocks.iter().any(|b| b.rollups().len() >= 6) {
        ctx.label("has-block-with-6+-rollups");
    }
    ctx.set_nontrivial(driver.full_rejections > 0 && driver.adds_after_full > 0);
    Ok(())
}

// ---------------------------------------------------------------------------------------------
// generator
// ---------------------------------------------------------------------------------------------

const LIMIT: u32 = verif::MAX_PAYLOAD_SIZE_BYTES as u32;

fn block_stream(tier: Tier) -> BoxedStrategy<Vec<BlockSpec>> {
    let max_blocks = tier.pick(24_usize, 40);
    // all small: never crosses the limit (cheap, trivial by the rule)
    let small = proptest::collection::vec(small_block(), 1..=max_blocks).boxed();
    // a few heavy blocks whose cumulative incompressible size crosses the limit
    let chunky = proptest::collection::vec(
        prop_oneof![
            4 => heavy_block(100_000_u32..480_000),
            1 => heavy_block(480_000_u32..900_000),
            1 => small_block(),
        ],
        3..=9,
    )
    .boxed();
    // k equal heavy blocks summing to the limit +- a few KB, so the k-th block is the one that
    // does or does not fit; followed by a tail
    let boundary = (2_u32..=6, -6000_i32..3000, proptest::collection::vec(small_block(), 0..4))
        .prop_flat_map(|(k, delta, tail)| {
            let per_block = ((LIMIT as i32 + delta) / k as i32) as u32;
            (
                proptest::collection::vec(
                    heavy_block((per_block.saturating_sub(40))..=per_block + 40),
                    k as usize,
                ),
                Just(tail),
                heavy_block(1_000_u32..200_000),
            )
        })
        .prop_map(|(mut head, tail, last)| {
            head.extend(tail);
            head.push(last);
            head
        })
        .boxed();
    // many small blocks with a few heavy ones in between
    let mixed = proptest::collection::vec(
        prop_oneof![
            5 => small_block(),
            1 => heavy_block(100_000_u32..400_000),
        ],
        5..=max_blocks,
    )
    .boxed();
    prop_oneof![
        1 => small,
        5 => chunky,
        4 => boundary,
        2 => mixed,
    ]
    .boxed()
}

fn stream(tier: Tier) -> BoxedStrategy<Stream> {
    (
        prop_oneof![4 => 1_u32..1000, 1 => (u32::MAX - 10_000)..(u32::MAX - 100)],
        block_stream(tier),
        filter_spec(),
        // sparse takes: most submissions are left to fill up until a block is rejected
        prop_oneof![
            4 => Just(Vec::new()),
            4 => proptest::collection::vec(prop_oneof![1 => 0_u8..3, 3 => 3_u8..14], 1..4),
            1 => proptest::collection::vec(0_u8..4, 4..12),
        ],
    )
        .prop_flat_map(|parts| (Just(parts), prop_oneof![3 => Just(true), 1 => Just(false)]))
        .prop_map(|((first_height, mut blocks, filter, schedule), align)| {
            // keep most heavy payloads in rollups the filter lets through, otherwise a filtered
            // stream never fills a submission
            if let (true, FilterSpec::Only(mask)) = (align, filter) {
                let included: Vec<u8> =
                    (0..ROLLUP_POOL as u8).filter(|r| mask & (1 << r) != 0).collect();
                if !included.is_empty() {
                    for block in &mut blocks {
                        for (rollup, payload) in &mut block.submissions {
                            if payload.is_incompressible() && payload.len() > 10_000 {
                                *rollup = included[*rollup as usize % included.len()];
                            }
                        }
                    }
                }
            }
            Stream {
                first_height,
                blocks,
                filter,
                schedule,
            }
        })
        .boxed()
}

// ---------------------------------------------------------------------------------------------
// sub-check 2: payloads tuned to the exact limit
// ---------------------------------------------------------------------------------------------

#[derive(Clone, Debug, Serialize, Deserialize)]
pub struct ExactLimit {
    /// blocks before the tuned one (their sizes are fixed)
    pub head: Vec<BlockSpec>,
    pub seed: u64,
    pub rollup: u8,
    /// the compressed size of the whole payload is tuned to `limit + delta`
    pub delta: i8,
    pub filter_all: bool,
}

/// Compressed payload size of `blocks` as measured on the blobs produced by the real conversion.
fn measure(blocks: &[(u32, BlockSpec)], filter: FilterSpec) -> Result<usize, vcommon::Failure> {
    let filter = filter.build().map_err(|e| vcommon::Failure::new("filter-rejected", e))?;
    let blocks = blocks.iter().map(|(h, spec)| make_block(*h, spec)).collect();
    match verif::convert(blocks, &filter) {
        Ok(payload) => Ok(decode::compressed_size(&payload.blobs)),
        Err(error) => Err(vcommon::Failure::new(
            "conversion-failed",
            format!("converting valid blocks failed: {error}"),
        )),
    }
}

fn exact_limit_case(case: &ExactLimit, ctx: &mut Ctx) -> CaseResult {
    let rt = tokio::runtime::Builder::new_current_thread()
        .enable_all()
        .start_paused(true)
        .build()
        .expect("runtime");
    let _guard = rt.enter();
    let filter = if case.filter_all {
        FilterSpec::All
    } else {
        FilterSpec::Only(0xff)
    };
    let limit = verif::MAX_PAYLOAD_SIZE_BYTES;
    let target = (limit as i64 + i64::from(case.delta)) as usize;
    let tuned = |len: u32| BlockSpec {
        submissions: vec![(
            case.rollup % ROLLUP_POOL as u8,
            PayloadSpec::Random {
                seed: case.seed,
                len,
            },
        )],
        deposits: vec![],
        flavour: 3,
    };
    let with = |len: u32| -> Vec<(u32, BlockSpec)> {
        let mut all: Vec<(u32, BlockSpec)> = case
            .head
            .iter()
            .cloned()
            .enumerate()
            .map(|(i, b)| (10 + i as u32, b))
            .collect();
        all.push((10 + case.head.len() as u32, tuned(len)));
        all
    };
    // binary search for the smallest length whose payload reaches the target (the compressed size
    // of incompressible data grows by one byte per byte, with rare jumps)
    let (mut lo, mut hi) = (1_u32, LIMIT + 1000);
    if measure(&with(lo), filter)? > target {
        ctx.label("noop:head-already-over-target");
        return Ok(());
    }
    while lo + 1 < hi {
        let mid = lo + (hi - lo) / 2;
        if measure(&with(mid), filter)? >= target {
            hi = mid;
        } else {
            lo = mid;
        }
    }
    // the size is not perfectly monotone in the length: look at the neighbours too
    let mut best = hi;
    let mut candidates = vec![hi];
    for d in 1..=10_u32 {
        candidates.push(hi + d);
        if hi > d {
            candidates.push(hi - d);
        }
    }
    for len in candidates {
        if measure(&with(len), filter)? == target {
            best = len;
            break;
        }
    }
    let blocks = with(best);
    let size = measure(&blocks, filter)?;
    ctx.note("tuned_size", size);
    if size != target {
        ctx.label("noop:target-size-not-reachable");
        return Ok(());
    }
    let single = blocks.len() == 1;
    if single && size > limit {
        // precondition of the property: a single block never exceeds the bound
        ctx.label("noop:single-block-over-limit");
        return Ok(());
    }
    ctx.label(format!("delta:{}", case.delta));
    ctx.label(if single { "single-block" } else { "multi-block" });

    let batcher = match Batcher::new(filter.build().expect("built before")) {
        Ok(batcher) => batcher,
        Err(error) => vfail!("harness-batcher", "cannot construct the batcher: {error}"),
    };
    let mut expected = BTreeMap::new();
    let mut queue = VecDeque::new();
    for (height, spec) in &blocks {
        let block = make_block(*height, spec);
        expected.insert(u64::from(*height), expected_of(spec, &block));
        queue.push_back((u64::from(*height), block));
    }
    let mut driver = Driver {
        batcher,
        queue,
        handed: Vec::new(),
        taken: Vec::new(),
        full_rejections: 0,
        adds_after_full: 0,
    };
    let mut guard = 0;
    while !driver.queue.is_empty() {
        guard += 1;
        vensure!(guard <= 4 * blocks.len() + 8, "no-progress", "the batcher makes no progress");
        if !driver.offer(ctx)? {
            driver.take(ctx)?;
        }
    }
    while driver.take(ctx)? {}
    vensure!(
        driver.batcher.pending_height().is_none(),
        "block-lost",
        "a payload of exactly {size} bytes (limit {limit}): height {:?} stays parked as pending \
         block forever and nothing can be taken",
        driver.batcher.pending_height()
    );
    let mut decoded_heights = Vec::new();
    for submission in &driver.taken {
        decoded_heights.extend(check_submission(&submission.blobs, &expected, filter, limit)?);
    }
    check_exactly_once(&driver.handed, &decoded_heights)?;
    ctx.label(format!("submissions:{}", driver.taken.len()));
    ctx.nontrivial();
    Ok(())
}

fn exact_limit(_tier: Tier) -> BoxedStrategy<ExactLimit> {
    (
        prop_oneof![
            2 => Just(Vec::new()),
            2 => proptest::collection::vec(heavy_block(100_000_u32..450_000), 1..=2),
            1 => proptest::collection::vec(small_block(), 1..=3),
        ],
        any::<u64>(),
        0_u8..ROLLUP_POOL as u8,
        prop_oneof![3 => Just(0_i8), 1 => Just(-1_i8), 1 => Just(1_i8)],
        any::<bool>(),
    )
        .prop_map(|(head, seed, rollup, delta, filter_all)| ExactLimit {
            head,
            seed,
            rollup,
            delta,
            filter_all,
        })
        .boxed()
}

pub fn run(args: &[String]) -> ! {
    let mut s = Session::from_args("C12", "exploration", args);
    s.assume(
        "precondition of the property: a single sequencer block never exceeds the payload bound \
         (generated blocks carry at most 900 KB of incompressible data; an over-sized single block \
         is a documented hard error of the relayer)",
    );
    s.assume(
        "the payload limit is the constant MAX_PAYLOAD_SIZE_BYTES = 1_000_000 of \
         relayer/write/conversion.rs; the API offers no way to configure a smaller one, so every \
         case runs against the production limit",
    );
    s.assume(format!(
        "blobs are decoded by {} (brotli -> protobuf list -> try_from_raw), behind \
         decode::decode_like_conductor; the per-entry proof audit is the one of conductor's \
         reconstruct.rs",
        decode::DECODER
    ));
    s.assume(
        "the batcher is driven through the real BlobSubmitter methods has_capacity / \
         add_sequencer_block_to_next_submission and NextSubmission::take; the re-adding of the \
         pending block after a take (3 lines of BlobSubmitter::run's select arm) is mirrored in \
         the hook",
    );
    s.run_prop(Prop {
        name: "streams",
        rule: "streams of 1..=24 (thorough 40) sequencer blocks with 0..=8 rollups each: all-small, \
               chunky (60-900 KB incompressible per block), boundary (k equal blocks summing to \
               the 1_000_000 byte limit -6000..+3000) and mixed profiles; rollup filter all / \
               subset / none; a generated schedule of offers and takes, then a drain. Non-trivial: \
               at least one Full rejection (block parked as pending) followed by a later \
               successful add",
        cases_quick: 2_400,
        cases_thorough: 60_000,
        shards: 12,
        min_nontrivial: 0.3,
        max_shrink_iters: 120,
        strategy: Box::new(stream),
        test: Box::new(stream_case),
    });
    s.run_prop(Prop {
        name: "exact_limit",
        rule: "0..=3 blocks followed by one block whose incompressible payload length is tuned by \
               binary search (measuring the blobs of the real conversion) so that the compressed \
               payload of all of them is exactly limit-1 / limit / limit+1 bytes; then batched and \
               checked like a stream. Non-trivial: the target size was hit exactly",
        cases_quick: 48,
        cases_thorough: 1_200,
        shards: 12,
        min_nontrivial: 0.3,
        max_shrink_iters: 24,
        strategy: Box::new(exact_limit),
        test: Box::new(exact_limit_case),
    });
    s.finish()
}
