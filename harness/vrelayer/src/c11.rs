//! C11 — the relayer never skips a sequencer block across crash/restart (fault enumeration).
//!
//! The relayer is run through its public API (`SequencerRelayer::new(Config)`, `run()`) against
//! three in-process fakes on loopback ports whose behaviour is a generated *plan*:
//!
//! * fake CometBFT JSON-RPC (`status`, `abci_info`): reveals sequencer heights in bursts;
//! * fake sequencer gRPC (`GetSequencerBlock`): serves the revealed blocks, with planned transient
//!   errors;
//! * fake Celestia app gRPC (node info, account, params, min gas price, `BroadcastTx`, `GetTx`):
//!   every broadcast BlobTx gets the next planned *fate*.
//!
//! One incarnation = one paused current-thread tokio runtime holding the relayer and the fakes. A
//! crash drops the whole runtime (process-kill semantics); the fakes' world state, the fake chain
//! and the submission state file persist; a restart builds a new incarnation on the same file.
//! Crash points are "the n-th event of kind K, before/after the fake processes it", virtual-time
//! points, and the restarts forced by fates that would otherwise block the relayer forever.
//!
//! A 5 ms heartbeat timer keeps tokio's auto-advancing paused clock from jumping over request
//! time-outs while loopback I/O is in flight (the clock advances at most 5 ms per scheduler park).
//!
//! Oracle (pure invariant over the fakes' world, checked at every restart and at the end):
//! the state file is readable by the relayer's own reader; if it names height `L` as last
//! submitted, every height `1..=L` is contained in a *landed* Celestia transaction (blobs decoded
//! like conductor does); the landed heights never have a gap; an inotify watch asserts the state
//! file is only ever replaced by a rename, never written in place.

use std::{
    collections::{
        BTreeMap,
        BTreeSet,
    },
    net::SocketAddr,
    path::{
        Path,
        PathBuf,
    },
    sync::{
        Arc,
        Mutex,
    },
    time::Duration,
};

use astria_core::generated::{
    astria::sequencerblock::v1::{
        sequencer_service_server::{
            SequencerService,
            SequencerServiceServer,
        },
        FilteredSequencerBlock as RawFilteredSequencerBlock,
        GetFilteredSequencerBlockRequest,
        GetPendingNonceRequest,
        GetPendingNonceResponse,
        GetSequencerBlockRequest,
        SequencerBlock as RawSequencerBlock,
    },
    celestia::v1::{
        query_server::{
            Query as BlobQueryService,
            QueryServer as BlobQueryServer,
        },
        Params as BlobParams,
        QueryParamsRequest as QueryBlobParamsRequest,
        QueryParamsResponse as QueryBlobParamsResponse,
    },
    cosmos::{
        auth::v1beta1::{
            query_server::{
                Query as AuthQueryService,
                QueryServer as AuthQueryServer,
            },
            BaseAccount,
            Params as AuthParams,
            QueryAccountRequest,
            QueryAccountResponse,
            QueryParamsRequest as QueryAuthParamsRequest,
            QueryParamsResponse as QueryAuthParamsResponse,
        },
        base::{
            abci::v1beta1::TxResponse,
            node::v1beta1::{
                service_server::{
                    Service as MinGasPriceService,
                    ServiceServer as MinGasPriceServer,
                },
                ConfigRequest as MinGasPriceRequest,
                ConfigResponse as MinGasPriceResponse,
            },
            tendermint::v1beta1::{
                service_server::{
                    Service as NodeInfoService,
                    ServiceServer as NodeInfoServer,
                },
                GetNodeInfoRequest,
                GetNodeInfoResponse,
            },
        },
        tx::v1beta1::{
            service_server::{
                Service as TxService,
                ServiceServer as TxServer,
            },
            AuthInfo,
            BroadcastTxRequest,
            BroadcastTxResponse,
            GetTxRequest,
            GetTxResponse,
            Tx,
        },
    },
    sequencerblock::v1::{
        GetUpgradesInfoRequest,
        GetUpgradesInfoResponse,
        GetValidatorNameRequest,
        GetValidatorNameResponse,
    },
    tendermint::{
        p2p::DefaultNodeInfo,
        types::BlobTx,
    },
};
use astria_sequencer_relayer::{
    verif::{
        self,
        SubmissionState,
    },
    Config,
    SequencerRelayer,
};
use celestia_types::{
    nmt::Namespace,
    AppVersion,
    Blob,
};
use proptest::prelude::*;
use prost::{
    Message as _,
    Name as _,
};
use serde::{
    Deserialize,
    Serialize,
};
use sha2::{
    Digest as _,
    Sha256,
};
use tokio::sync::mpsc;
use tonic::{
    transport::Server,
    Request,
    Response,
    Status,
};
use vcommon::{
    vensure,
    vfail,
    CaseResult,
    Ctx,
    Failure,
    Prop,
    Session,
    Tier,
};

use crate::{
    blocks::{
        heavy_block,
        make_block,
        small_block,
        BlockSpec,
        SEQUENCER_CHAIN_ID,
    },
    c12::sequencer_namespace,
    decode::decode_metadata_like_conductor,
};

const CELESTIA_CHAIN_ID: &str = "verif-celestia";
const HEARTBEAT: Duration = Duration::from_millis(5);
/// virtual time after which an incarnation without quiescence is given up (inconclusive)
const VIRTUAL_BUDGET: Duration = Duration::from_secs(4 * 3600);
/// real time after which a case is given up (inconclusive)
const REAL_BUDGET: Duration = Duration::from_secs(40);
const INITIAL_ACCOUNT_SEQUENCE: u64 = 53;

// ---------------------------------------------------------------------------------------------
// the plan (a case)
// ---------------------------------------------------------------------------------------------

#[derive(Clone, Copy, Debug, Serialize, Deserialize, PartialEq, Eq, PartialOrd, Ord)]
pub enum EventKind {
    Status,
    AbciInfo,
    GetSequencerBlock,
    /// node info, account, auth params, blob params, min gas price
    CelestiaQuery,
    BroadcastTx,
    GetTx,
}

#[derive(Clone, Debug, Serialize, Deserialize, PartialEq, Eq)]
pub enum Fate {
    /// accepted; `GetTx` reports it pending this many times, then it has landed
    ConfirmAfter(u8),
    /// accepted and pending for as long as this incarnation lives; the relayer is killed at its
    /// `polls`-th `GetTx`; it lands when the relayer is down
    PendingUntilRestart { polls: u8 },
    /// accepted but dropped from the mempool: never lands; the relayer is killed at its `polls`-th
    /// `GetTx` (it would poll forever)
    Lost { polls: u8 },
    /// the broadcast RPC times out (`Cancelled`); the tx was received and lands, or was not
    BroadcastTimeout { lands: bool },
    /// the broadcast fails (gRPC `Unavailable`, or an insufficient-fee response); nothing lands
    BroadcastError { insufficient_fee: bool },
}

impl Fate {
    fn label(&self) -> &'static str {
        match self {
            Fate::ConfirmAfter(0) => "confirm-immediately",
            Fate::ConfirmAfter(_) => "confirm-after-polls",
            Fate::PendingUntilRestart { .. } => "pending-until-restart",
            Fate::Lost { .. } => "lost",
            Fate::BroadcastTimeout { lands: true } => "broadcast-timeout-lands",
            Fate::BroadcastTimeout { lands: false } => "broadcast-timeout-lost",
            Fate::BroadcastError { .. } => "broadcast-error",
        }
    }
}

#[derive(Clone, Debug, Serialize, Deserialize, PartialEq, Eq)]
pub enum CrashPoint {
    /// at the `nth` event of `kind` (counted over the whole history, from 1), before or after the
    /// fake processes it
    Event { kind: EventKind, nth: u8, after: bool },
    /// `ms` virtual milliseconds after the start of incarnation `incarnation` (0-based)
    Timer { incarnation: u8, ms: u32 },
}

#[derive(Clone, Debug, Serialize, Deserialize)]
pub struct Plan {
    pub blocks: Vec<BlockSpec>,
    /// the i-th `abci_info` call reveals this many more heights; afterwards all are revealed
    pub reveal: Vec<u8>,
    /// indices (0-based, over the whole history) of `GetSequencerBlock` calls that fail
    pub block_errors: Vec<u8>,
    /// fate of the i-th `BroadcastTx` call; afterwards every tx confirms immediately
    pub fates: Vec<Fate>,
    pub crashes: Vec<CrashPoint>,
    /// sequencer poll period / block time in ms
    pub block_time_ms: u16,
}

// ---------------------------------------------------------------------------------------------
// the world (persists across incarnations)
// ---------------------------------------------------------------------------------------------

#[derive(Clone, Debug, PartialEq, Eq)]
enum TxState {
    Pending { polls_left: u8 },
    PendingUntilRestart { crash_at_poll: u8 },
    Lost { crash_at_poll: u8 },
    Landed { celestia_height: u64 },
    /// its account sequence was used by another landed tx
    Invalidated,
}

#[derive(Clone, Debug)]
struct TxRecord {
    heights: Vec<u64>,
    sequence: u64,
    state: TxState,
    polls_this_incarnation: u32,
    born_incarnation: u32,
    fate: &'static str,
}

#[derive(Clone, Debug)]
struct CrashInfo {
    what: String,
    kind_label: String,
}

struct World {
    plan: Plan,
    blocks: Vec<RawSequencerBlock>,
    revealed: u32,
    counts: BTreeMap<EventKind, u32>,
    pending_crashes: Vec<CrashPoint>,
    crash_tx: Option<mpsc::UnboundedSender<CrashInfo>>,
    crashed: bool,
    incarnation: u32,
    celestia_height: u64,
    account_sequence: u64,
    broadcasts: u32,
    txs: BTreeMap<String, TxRecord>,
    last_fate: &'static str,
    applied_fates: BTreeSet<&'static str>,
    log: Vec<String>,
}

type Shared = Arc<Mutex<World>>;

impl World {
    fn log(&mut self, line: String) {
        if self.log.len() < 400 {
            self.log.push(format!("i{} {line}", self.incarnation));
        }
    }

    /// Counts an event; returns its 1-based index over the whole history.
    fn count(&mut self, kind: EventKind) -> u32 {
        let n = self.counts.entry(kind).or_default();
        *n += 1;
        *n
    }

    /// True if a planned crash point matches (and consumes it).
    fn crash_due(&mut self, kind: EventKind, nth: u32, after: bool) -> bool {
        let pos = self.pending_crashes.iter().position(|c| {
            matches!(c, CrashPoint::Event { kind: k, nth: n, after: a }
                if *k == kind && u32::from(*n) == nth && *a == after)
        });
        match pos {
            Some(pos) => {
                self.pending_crashes.remove(pos);
                true
            }
            None => false,
        }
    }

    fn trigger_crash(&mut self, what: String, kind_label: String) {
        if self.crashed {
            return;
        }
        self.crashed = true;
        self.log(format!("CRASH {what}"));
        if let Some(tx) = &self.crash_tx {
            let _ = tx.send(CrashInfo {
                what,
                kind_label,
            });
        }
    }

    fn landed_heights(&self) -> BTreeSet<u64> {
        self.txs
            .values()
            .filter(|t| matches!(t.state, TxState::Landed { .. }))
            .flat_map(|t| t.heights.iter().copied())
            .collect()
    }

    fn land(&mut self, hash: &str) -> Option<u64> {
        let account_sequence = self.account_sequence;
        let record = self.txs.get_mut(hash)?;
        if record.sequence != account_sequence {
            record.state = TxState::Invalidated;
            let line = format!("tx {} invalidated (stale account sequence)", &hash[..8]);
            self.log(line);
            return None;
        }
        self.celestia_height += 1;
        self.account_sequence += 1;
        let height = self.celestia_height;
        let record = self.txs.get_mut(hash).expect("checked above");
        record.state = TxState::Landed {
            celestia_height: height,
        };
        let line = format!(
            "tx {} ({}) LANDED at celestia height {height} with sequencer heights {:?}",
            &hash[..8],
            record.fate,
            record.heights
        );
        self.log(line);
        Some(height)
    }
}

/// Runs the crash check for an event; if a crash is due the handler never answers.
async fn maybe_crash(world: &Shared, kind: EventKind, nth: u32, after: bool) {
    let due = {
        let mut w = world.lock().unwrap();
        if w.crashed {
            true
        } else if w.crash_due(kind, nth, after) {
            let side = if after { "after" } else { "before" };
            w.trigger_crash(
                format!("{side} {kind:?}#{nth}"),
                format!("{kind:?}:{side}"),
            );
            true
        } else {
            false
        }
    };
    if due {
        std::future::pending::<()>().await;
    }
}

// ---------------------------------------------------------------------------------------------
// fake sequencer gRPC
// ---------------------------------------------------------------------------------------------

struct FakeSequencer(Shared);

#[async_trait::async_trait]
impl SequencerService for FakeSequencer {
    async fn get_sequencer_block(
        self: Arc<Self>,
        request: Request<GetSequencerBlockRequest>,
    ) -> Result<Response<RawSequencerBlock>, Status> {
        let height = request.into_inner().height;
        let nth = self.0.lock().unwrap().count(EventKind::GetSequencerBlock);
        maybe_crash(&self.0, EventKind::GetSequencerBlock, nth, false).await;
        let result = {
            let mut w = self.0.lock().unwrap();
            let fails = w.plan.block_errors.iter().any(|i| u32::from(*i) + 1 == nth);
            if fails {
                w.log(format!("GetSequencerBlock#{nth}({height}) -> unavailable"));
                Err(Status::unavailable("planned failure"))
            } else if height == 0 || height > u64::from(w.revealed) {
                w.log(format!("GetSequencerBlock#{nth}({height}) -> not found"));
                Err(Status::not_found("no such block yet"))
            } else {
                w.log(format!("GetSequencerBlock#{nth}({height}) -> ok"));
                Ok(Response::new(w.blocks[height as usize - 1].clone()))
            }
        };
        maybe_crash(&self.0, EventKind::GetSequencerBlock, nth, true).await;
        result
    }

    async fn get_filtered_sequencer_block(
        self: Arc<Self>,
        _request: Request<GetFilteredSequencerBlockRequest>,
    ) -> Result<Response<RawFilteredSequencerBlock>, Status> {
        Err(Status::unimplemented("not used by the relayer"))
    }

    async fn get_pending_nonce(
        self: Arc<Self>,
        _request: Request<GetPendingNonceRequest>,
    ) -> Result<Response<GetPendingNonceResponse>, Status> {
        Err(Status::unimplemented("not used by the relayer"))
    }

    async fn get_upgrades_info(
        self: Arc<Self>,
        _request: Request<GetUpgradesInfoRequest>,
    ) -> Result<Response<GetUpgradesInfoResponse>, Status> {
        Err(Status::unimplemented("not used by the relayer"))
    }

    async fn get_validator_name(
        self: Arc<Self>,
        _request: Request<GetValidatorNameRequest>,
    ) -> Result<Response<GetValidatorNameResponse>, Status> {
        Err(Status::unimplemented("not used by the relayer"))
    }
}

// ---------------------------------------------------------------------------------------------
// fake celestia app gRPC
// ---------------------------------------------------------------------------------------------

#[derive(Clone)]
struct FakeCelestia(Shared);

impl FakeCelestia {
    async fn query_event<T>(&self, name: &str, response: T) -> Result<Response<T>, Status> {
        let nth = self.0.lock().unwrap().count(EventKind::CelestiaQuery);
        maybe_crash(&self.0, EventKind::CelestiaQuery, nth, false).await;
        self.0.lock().unwrap().log(format!("CelestiaQuery#{nth} {name}"));
        maybe_crash(&self.0, EventKind::CelestiaQuery, nth, true).await;
        Ok(Response::new(response))
    }
}

#[async_trait::async_trait]
impl NodeInfoService for FakeCelestia {
    async fn get_node_info(
        self: Arc<Self>,
        _request: Request<GetNodeInfoRequest>,
    ) -> Result<Response<GetNodeInfoResponse>, Status> {
        let response = GetNodeInfoResponse {
            default_node_info: Some(DefaultNodeInfo {
                network: CELESTIA_CHAIN_ID.to_string(),
                ..Default::default()
            }),
            ..Default::default()
        };
        self.query_event("node_info", response).await
    }
}

#[async_trait::async_trait]
impl AuthQueryService for FakeCelestia {
    async fn account(
        self: Arc<Self>,
        request: Request<QueryAccountRequest>,
    ) -> Result<Response<QueryAccountResponse>, Status> {
        let sequence = self.0.lock().unwrap().account_sequence;
        let account = BaseAccount {
            address: request.into_inner().address,
            pub_key: None,
            account_number: 10,
            sequence,
        };
        let response = QueryAccountResponse {
            account: Some(pbjson_types::Any {
                type_url: BaseAccount::type_url(),
                value: account.encode_to_vec().into(),
            }),
        };
        self.query_event("account", response).await
    }

    async fn params(
        self: Arc<Self>,
        _request: Request<QueryAuthParamsRequest>,
    ) -> Result<Response<QueryAuthParamsResponse>, Status> {
        let response = QueryAuthParamsResponse {
            params: Some(AuthParams {
                max_memo_characters: 256,
                tx_sig_limit: 7,
                tx_size_cost_per_byte: 10,
                sig_verify_cost_ed25519: 590,
                sig_verify_cost_secp256k1: 1000,
            }),
        };
        self.query_event("auth_params", response).await
    }
}

#[async_trait::async_trait]
impl BlobQueryService for FakeCelestia {
    async fn params(
        self: Arc<Self>,
        _request: Request<QueryBlobParamsRequest>,
    ) -> Result<Response<QueryBlobParamsResponse>, Status> {
        let response = QueryBlobParamsResponse {
            params: Some(BlobParams {
                gas_per_blob_byte: 8,
                gov_max_square_size: 64,
            }),
        };
        self.query_event("blob_params", response).await
    }
}

#[async_trait::async_trait]
impl MinGasPriceService for FakeCelestia {
    async fn config(
        self: Arc<Self>,
        _request: Request<MinGasPriceRequest>,
    ) -> Result<Response<MinGasPriceResponse>, Status> {
        let response = MinGasPriceResponse {
            minimum_gas_price: "0.002000000000000000utia".to_string(),
        };
        self.query_event("min_gas_price", response).await
    }
}

/// The sequencer heights carried by a BlobTx: its blobs decoded the way conductor does.
fn heights_of_blob_tx(blob_tx: &BlobTx) -> Result<Vec<u64>, String> {
    let mut blobs = Vec::new();
    for blob in &blob_tx.blobs {
        let namespace = Namespace::new_v0(blob.namespace_id.as_ref())
            .map_err(|e| format!("bad namespace in BlobTx: {e}"))?;
        blobs.push(
            Blob::new(namespace, blob.data.to_vec(), AppVersion::V3)
                .map_err(|e| format!("bad blob in BlobTx: {e}"))?,
        );
    }
    let decoded = decode_metadata_like_conductor(&blobs, sequencer_namespace());
    if decoded.dropped_blobs != 0 {
        return Err(format!("undecodable metadata blob: {:?}", decoded.drop_reasons));
    }
    Ok(decoded.metadata.iter().map(|m| m.height().value()).collect())
}

fn sequence_of_blob_tx(blob_tx: &BlobTx) -> Result<u64, String> {
    let tx = Tx::decode(blob_tx.tx.as_ref()).map_err(|e| format!("bad Tx in BlobTx: {e}"))?;
    let auth_info: AuthInfo = tx.auth_info.ok_or("Tx without auth info")?;
    auth_info
        .signer_infos
        .first()
        .map(|s| s.sequence)
        .ok_or_else(|| "Tx without signer info".to_string())
}

#[async_trait::async_trait]
impl TxService for FakeCelestia {
    async fn broadcast_tx(
        self: Arc<Self>,
        request: Request<BroadcastTxRequest>,
    ) -> Result<Response<BroadcastTxResponse>, Status> {
        let nth = self.0.lock().unwrap().count(EventKind::BroadcastTx);
        maybe_crash(&self.0, EventKind::BroadcastTx, nth, false).await;
        let tx_bytes = request.into_inner().tx_bytes;
        let result = {
            let mut w = self.0.lock().unwrap();
            let blob_tx = BlobTx::decode(tx_bytes.as_ref())
                .map_err(|e| Status::invalid_argument(format!("not a BlobTx: {e}")))?;
            let hash = hex::encode(Sha256::digest(&blob_tx.tx));
            let heights = heights_of_blob_tx(&blob_tx).map_err(Status::invalid_argument)?;
            let sequence = sequence_of_blob_tx(&blob_tx).map_err(Status::invalid_argument)?;
            let index = w.broadcasts as usize;
            w.broadcasts += 1;
            let fate = w.plan.fates.get(index).cloned().unwrap_or(Fate::ConfirmAfter(0));
            w.last_fate = fate.label();
            w.applied_fates.insert(fate.label());
            w.log(format!(
                "BroadcastTx#{nth} tx {} seq {sequence} heights {heights:?} fate {fate:?}",
                &hash[..8]
            ));
            let ok_response = |hash: &str| {
                Ok(Response::new(BroadcastTxResponse {
                    tx_response: Some(TxResponse {
                        // the real app answers in upper case
                        txhash: hash.to_uppercase(),
                        code: 0,
                        ..TxResponse::default()
                    }),
                }))
            };
            if sequence != w.account_sequence {
                // CheckTx of the real app: incorrect account sequence
                let current = w.account_sequence;
                w.log(format!("  rejected: account sequence is {current}"));
                Ok(Response::new(BroadcastTxResponse {
                    tx_response: Some(TxResponse {
                        txhash: hash.to_uppercase(),
                        code: 32,
                        codespace: "sdk".to_string(),
                        raw_log: "account sequence mismatch".to_string(),
                        ..TxResponse::default()
                    }),
                }))
            } else {
                let already_landed =
                    matches!(w.txs.get(&hash).map(|t| &t.state), Some(TxState::Landed { .. }));
                let incarnation = w.incarnation;
                let record = |w: &mut World, state: TxState| {
                    if !already_landed {
                        w.txs.insert(
                            hash.clone(),
                            TxRecord {
                                heights: heights.clone(),
                                sequence,
                                state,
                                polls_this_incarnation: 0,
                                born_incarnation: incarnation,
                                fate: fate.label(),
                            },
                        );
                    }
                };
                match &fate {
                    Fate::ConfirmAfter(k) => {
                        record(
                            &mut w,
                            TxState::Pending {
                                polls_left: *k,
                            },
                        );
                        ok_response(&hash)
                    }
                    Fate::PendingUntilRestart {
                        polls,
                    } => {
                        record(
                            &mut w,
                            TxState::PendingUntilRestart {
                                crash_at_poll: (*polls).max(1),
                            },
                        );
                        ok_response(&hash)
                    }
                    Fate::Lost {
                        polls,
                    } => {
                        record(
                            &mut w,
                            TxState::Lost {
                                crash_at_poll: (*polls).max(1),
                            },
                        );
                        ok_response(&hash)
                    }
                    Fate::BroadcastTimeout {
                        lands,
                    } => {
                        if *lands {
                            record(
                                &mut w,
                                TxState::Pending {
                                    polls_left: 0,
                                },
                            );
                        }
                        // what tonic's client-side time-out produces
                        Err(Status::cancelled("Timeout expired"))
                    }
                    Fate::BroadcastError {
                        insufficient_fee,
                    } => {
                        if *insufficient_fee {
                            Ok(Response::new(BroadcastTxResponse {
                                tx_response: Some(TxResponse {
                                    txhash: hash.to_uppercase(),
                                    code: 13,
                                    codespace: "sdk".to_string(),
                                    raw_log: "insufficient fees; got: 1utia required: 7980utia: \
                                              insufficient fee"
                                        .to_string(),
                                    ..TxResponse::default()
                                }),
                            }))
                        } else {
                            Err(Status::unavailable("planned broadcast failure"))
                        }
                    }
                }
            }
        };
        maybe_crash(&self.0, EventKind::BroadcastTx, nth, true).await;
        result
    }

    async fn get_tx(
        self: Arc<Self>,
        request: Request<GetTxRequest>,
    ) -> Result<Response<GetTxResponse>, Status> {
        let nth = self.0.lock().unwrap().count(EventKind::GetTx);
        maybe_crash(&self.0, EventKind::GetTx, nth, false).await;
        let hash = request.into_inner().hash.to_lowercase();
        let (result, forced_crash) = {
            let mut w = self.0.lock().unwrap();
            let incarnation = w.incarnation;
            let pending = |hash: &str, nth: u32| {
                // the two shapes of "still pending" the real app produces
                if nth % 2 == 0 {
                    Err(Status::not_found("tx not found"))
                } else {
                    Ok(Response::new(GetTxResponse {
                        tx: None,
                        tx_response: Some(TxResponse {
                            txhash: hash.to_uppercase(),
                            height: 0,
                            code: 0,
                            ..TxResponse::default()
                        }),
                    }))
                }
            };
            let landed = |hash: &str, height: u64| {
                Ok(Response::new(GetTxResponse {
                    tx: None,
                    tx_response: Some(TxResponse {
                        txhash: hash.to_uppercase(),
                        height: height as i64,
                        code: 0,
                        ..TxResponse::default()
                    }),
                }))
            };
            let state = w.txs.get_mut(&hash).map(|t| {
                t.polls_this_incarnation += 1;
                (t.state.clone(), t.polls_this_incarnation, t.born_incarnation)
            });
            let mut forced = None;
            let result = match state {
                None | Some((TxState::Invalidated, ..)) => Err(Status::not_found("tx not found")),
                Some((TxState::Landed { celestia_height }, ..)) => landed(&hash, celestia_height),
                Some((TxState::Pending { polls_left }, ..)) => {
                    if polls_left == 0 {
                        match w.land(&hash) {
                            Some(height) => landed(&hash, height),
                            None => Err(Status::not_found("tx not found")),
                        }
                    } else {
                        w.txs.get_mut(&hash).expect("exists").state = TxState::Pending {
                            polls_left: polls_left - 1,
                        };
                        pending(&hash, nth)
                    }
                }
                Some((TxState::PendingUntilRestart { crash_at_poll }, polls, born)) => {
                    if born == incarnation && polls >= u32::from(crash_at_poll) {
                        forced = Some("pending-until-restart");
                    }
                    pending(&hash, nth)
                }
                Some((TxState::Lost { crash_at_poll }, polls, born)) => {
                    if born == incarnation && polls >= u32::from(crash_at_poll) {
                        forced = Some("lost");
                    }
                    Err(Status::not_found("tx not found"))
                }
            };
            let outcome = match &result {
                Ok(r) => format!("height {}", r.get_ref().tx_response.as_ref().map_or(0, |t| t.height)),
                Err(s) => format!("{:?}", s.code()),
            };
            let polls = w.txs.get(&hash).map_or(0, |t| t.polls_this_incarnation);
            if polls <= 3 || polls % 25 == 0 || result.is_ok() {
                w.log(format!(
                    "GetTx#{nth} tx {} (poll {polls}) -> {outcome}",
                    &hash[..hash.len().min(8)]
                ));
            }
            (result, forced)
        };
        if let Some(why) = forced_crash {
            self.0.lock().unwrap().trigger_crash(
                format!("forced by fate {why} at GetTx#{nth}"),
                format!("forced:{why}"),
            );
            std::future::pending::<()>().await;
        }
        maybe_crash(&self.0, EventKind::GetTx, nth, true).await;
        result
    }
}

// ---------------------------------------------------------------------------------------------
// fake cometbft JSON-RPC
// ---------------------------------------------------------------------------------------------

const STATUS_RESULT: &str = r#"
{
  "node_info": {
    "protocol_version": { "p2p": "8", "block": "11", "app": "0" },
    "id": "a1d3bbddb7800c6da2e64169fec281494e963ba3",
    "listen_addr": "tcp://0.0.0.0:26656",
    "network": "@NETWORK@",
    "version": "0.38.6",
    "channels": "40202122233038606100",
    "moniker": "fullnode",
    "other": { "tx_index": "on", "rpc_address": "tcp://0.0.0.0:26657" }
  },
  "sync_info": {
    "latest_block_hash": "A4202E4E367712AC2A797860265A7EBEA8A3ACE513CB0105C2C9058449641202",
    "latest_app_hash": "BCC9C9B82A49EC37AADA41D32B4FBECD2441563703955413195BDA2236775A68",
    "latest_block_height": "452605",
    "latest_block_time": "2024-05-09T15:59:17.849713071Z",
    "earliest_block_hash": "C34B7B0B82423554B844F444044D7D08A026D6E413E6F72848DB2F8C77ACE165",
    "earliest_app_hash": "6B776065775471CEF46AC75DE09A4B869A0E0EB1D7725A04A342C0E46C16F472",
    "earliest_block_height": "1",
    "earliest_block_time": "2024-04-23T00:49:11.964127Z",
    "catching_up": false
  },
  "validator_info": {
    "address": "0B46F33BA2FA5C2E2AD4C4C4E5ECE3F1CA03D195",
    "pub_key": { "type": "tendermint/PubKeyEd25519", "value": "bA6GipHUijVuiYhv+4XymdePBsn8EeTqjGqNQrBGZ4I=" },
    "voting_power": "0"
  }
}"#;

async fn cometbft_handler(
    axum::extract::State(world): axum::extract::State<Shared>,
    axum::Json(request): axum::Json<serde_json::Value>,
) -> axum::Json<serde_json::Value> {
    let id = request.get("id").cloned().unwrap_or(serde_json::Value::Null);
    let method = request.get("method").and_then(|m| m.as_str()).unwrap_or("").to_string();
    let result = match method.as_str() {
        "status" => {
            let nth = world.lock().unwrap().count(EventKind::Status);
            maybe_crash(&world, EventKind::Status, nth, false).await;
            world.lock().unwrap().log(format!("Status#{nth}"));
            maybe_crash(&world, EventKind::Status, nth, true).await;
            serde_json::from_str::<serde_json::Value>(
                &STATUS_RESULT.replace("@NETWORK@", SEQUENCER_CHAIN_ID),
            )
            .expect("valid json")
        }
        "abci_info" => {
            let nth = world.lock().unwrap().count(EventKind::AbciInfo);
            maybe_crash(&world, EventKind::AbciInfo, nth, false).await;
            let revealed = {
                let mut w = world.lock().unwrap();
                let total = w.blocks.len() as u32;
                let more = match w.plan.reveal.get(nth as usize - 1) {
                    Some(more) => u32::from(*more),
                    None => total,
                };
                let before = w.revealed;
                w.revealed = (w.revealed + more).min(total);
                let revealed = w.revealed;
                if revealed != before || nth <= 2 {
                    w.log(format!("AbciInfo#{nth} -> latest height {revealed}"));
                }
                revealed
            };
            maybe_crash(&world, EventKind::AbciInfo, nth, true).await;
            serde_json::json!({
                "response": {
                    "data": "verif",
                    "version": "1.0.0",
                    "app_version": "1",
                    "last_block_height": revealed.to_string(),
                    "last_block_app_hash": "AAAAAAAAAAAAAAAAAAAAAAAAAAAAAAAAAAAAAAAAAAA=",
                }
            })
        }
        other => {
            return axum::Json(serde_json::json!({
                "jsonrpc": "2.0",
                "id": id,
                "error": {"code": -32601, "message": "Method not found", "data": other},
            }));
        }
    };
    axum::Json(serde_json::json!({"jsonrpc": "2.0", "id": id, "result": result}))
}

// ---------------------------------------------------------------------------------------------
// inotify watch on the state directory (via libc)
// ---------------------------------------------------------------------------------------------

struct DirWatch {
    fd: i32,
}

impl DirWatch {
    fn new(dir: &Path) -> Option<Self> {
        use std::os::unix::ffi::OsStrExt as _;
        let path = std::ffi::CString::new(dir.as_os_str().as_bytes()).ok()?;
        // SAFETY: plain syscalls with a valid NUL-terminated path
        unsafe {
            let fd = libc::inotify_init1(libc::IN_NONBLOCK | libc::IN_CLOEXEC);
            if fd < 0 {
                return None;
            }
            let mask = libc::IN_MODIFY
                | libc::IN_CLOSE_WRITE
                | libc::IN_CREATE
                | libc::IN_MOVED_TO
                | libc::IN_DELETE;
            if libc::inotify_add_watch(fd, path.as_ptr(), mask) < 0 {
                libc::close(fd);
                return None;
            }
            Some(Self {
                fd,
            })
        }
    }

    /// Drains the queue: `(mask, file name)` per event.
    fn drain(&self) -> Vec<(u32, String)> {
        let mut out = Vec::new();
        let mut buf = [0_u8; 16 * 1024];
        loop {
            // SAFETY: reading into a local buffer of the stated size
            let n = unsafe { libc::read(self.fd, buf.as_mut_ptr().cast(), buf.len()) };
            if n <= 0 {
                break;
            }
            let n = n as usize;
            let mut at = 0;
            while at + 16 <= n {
                let mask = u32::from_ne_bytes(buf[at + 4..at + 8].try_into().unwrap());
                let len = u32::from_ne_bytes(buf[at + 12..at + 16].try_into().unwrap()) as usize;
                let name_bytes = &buf[at + 16..(at + 16 + len).min(n)];
                let name_end = name_bytes.iter().position(|b| *b == 0).unwrap_or(name_bytes.len());
                out.push((mask, String::from_utf8_lossy(&name_bytes[..name_end]).into_owned()));
                at += 16 + len;
            }
        }
        out
    }
}

impl Drop for DirWatch {
    fn drop(&mut self) {
        // SAFETY: closing our own descriptor
        unsafe {
            libc::close(self.fd);
        }
    }
}

// ---------------------------------------------------------------------------------------------
// one incarnation
// ---------------------------------------------------------------------------------------------

#[derive(Debug)]
enum End {
    Crash(CrashInfo),
    Quiescent,
    RelayerExited,
    VirtualBudget,
    RealBudget,
    Setup(String),
}

struct Paths {
    state_file: PathBuf,
    key_file: PathBuf,
}

fn state_file_says_done(path: &Path, last_height: u64) -> bool {
    let Ok(text) = std::fs::read_to_string(path) else {
        return false;
    };
    let Ok(value) = serde_json::from_str::<serde_json::Value>(&text) else {
        return false;
    };
    value.get("state").and_then(|s| s.as_str()) == Some("started")
        && value
            .get("last_submission")
            .and_then(|l| l.get("sequencer_height"))
            .and_then(serde_json::Value::as_u64)
            == Some(last_height)
}

async fn serve_fakes(world: Shared) -> Result<(SocketAddr, SocketAddr, SocketAddr), String> {
    use tokio_stream::wrappers::TcpListenerStream;
    let bind = || async {
        tokio::net::TcpListener::bind("127.0.0.1:0")
            .await
            .map_err(|e| format!("cannot bind a loopback port: {e}"))
    };
    let sequencer_listener = bind().await?;
    let celestia_listener = bind().await?;
    let cometbft_listener = bind().await?;
    let sequencer_addr = sequencer_listener.local_addr().map_err(|e| e.to_string())?;
    let celestia_addr = celestia_listener.local_addr().map_err(|e| e.to_string())?;
    let cometbft_addr = cometbft_listener.local_addr().map_err(|e| e.to_string())?;

    let sequencer = FakeSequencer(world.clone());
    tokio::spawn(async move {
        let _ = Server::builder()
            .add_service(SequencerServiceServer::new(sequencer))
            .serve_with_incoming(TcpListenerStream::new(sequencer_listener))
            .await;
    });
    let celestia = FakeCelestia(world.clone());
    tokio::spawn(async move {
        let _ = Server::builder()
            .add_service(NodeInfoServer::new(celestia.clone()))
            .add_service(AuthQueryServer::new(celestia.clone()))
            .add_service(BlobQueryServer::new(celestia.clone()))
            .add_service(MinGasPriceServer::new(celestia.clone()))
            .add_service(TxServer::new(celestia))
            .serve_with_incoming(TcpListenerStream::new(celestia_listener))
            .await;
    });
    let app = axum::Router::new()
        .route("/", axum::routing::post(cometbft_handler))
        .with_state(world);
    tokio::spawn(async move {
        let _ = axum::serve(cometbft_listener, app).await;
    });
    Ok((sequencer_addr, celestia_addr, cometbft_addr))
}

fn run_incarnation(world: &Shared, paths: &Paths, started: std::time::Instant) -> End {
    let rt = match tokio::runtime::Builder::new_current_thread()
        .enable_all()
        .start_paused(true)
        .build()
    {
        Ok(rt) => rt,
        Err(error) => return End::Setup(format!("cannot build a runtime: {error}")),
    };
    let (crash_tx, mut crash_rx) = mpsc::unbounded_channel();
    let (incarnation, timer_crash, block_time_ms, total_blocks) = {
        let mut w = world.lock().unwrap();
        w.crash_tx = Some(crash_tx);
        w.crashed = false;
        for record in w.txs.values_mut() {
            record.polls_this_incarnation = 0;
        }
        let incarnation = w.incarnation;
        let pos = w.pending_crashes.iter().position(|c| {
            matches!(c, CrashPoint::Timer { incarnation: i, .. } if u32::from(*i) == incarnation)
        });
        let timer_crash = pos.map(|pos| match w.pending_crashes.remove(pos) {
            CrashPoint::Timer {
                ms, ..
            } => ms,
            CrashPoint::Event {
                ..
            } => unreachable!(),
        });
        (incarnation, timer_crash, w.plan.block_time_ms, w.blocks.len() as u64)
    };

    let end = rt.block_on(async {
        // bounds how far the paused clock can jump per scheduler park
        tokio::spawn(async {
            loop {
                tokio::time::sleep(HEARTBEAT).await;
            }
        });
        let (sequencer_addr, celestia_addr, cometbft_addr) = match serve_fakes(world.clone()).await
        {
            Ok(addrs) => addrs,
            Err(error) => return End::Setup(error),
        };
        let config = Config {
            sequencer_chain_id: SEQUENCER_CHAIN_ID.to_string(),
            celestia_chain_id: CELESTIA_CHAIN_ID.to_string(),
            cometbft_endpoint: format!("http://{cometbft_addr}"),
            sequencer_grpc_endpoint: format!("http://{sequencer_addr}"),
            celestia_app_grpc_endpoint: format!("http://{celestia_addr}"),
            celestia_app_key_file: paths.key_file.to_string_lossy().to_string(),
            block_time: u64::from(block_time_ms.max(10)),
            only_include_rollups: String::new(),
            api_addr: "127.0.0.1:0".to_string(),
            log: String::new(),
            force_stdout: false,
            no_otel: true,
            no_metrics: true,
            metrics_http_listener_addr: String::new(),
            submission_state_path: paths.state_file.clone(),
            celestia_default_min_gas_price: 0.002,
        };
        let (relayer, _shutdown_handle) =
            match SequencerRelayer::new(config, verif::noop_metrics()).await {
                Ok(pair) => pair,
                Err(error) => return End::Setup(format!("SequencerRelayer::new failed: {error:#}")),
            };
        let mut relayer_task = tokio::spawn(relayer.run());

        let timer = async {
            match timer_crash {
                Some(ms) => tokio::time::sleep(Duration::from_millis(u64::from(ms))).await,
                None => std::future::pending::<()>().await,
            }
        };
        let quiescence = async {
            let virtual_start = tokio::time::Instant::now();
            loop {
                tokio::time::sleep(Duration::from_millis(50)).await;
                let (all_revealed, faults_left) = {
                    let w = world.lock().unwrap();
                    (u64::from(w.revealed) == total_blocks, false)
                };
                let _ = faults_left;
                if all_revealed && state_file_says_done(&paths.state_file, total_blocks) {
                    return End::Quiescent;
                }
                if started.elapsed() > REAL_BUDGET {
                    return End::RealBudget;
                }
                if virtual_start.elapsed() > VIRTUAL_BUDGET {
                    return End::VirtualBudget;
                }
            }
        };
        tokio::select! {
            biased;
            Some(info) = crash_rx.recv() => End::Crash(info),
            () = timer => {
                let mut w = world.lock().unwrap();
                let ms = timer_crash.unwrap_or(0);
                w.crashed = true;
                w.log(format!("CRASH timer {ms} ms into incarnation {incarnation}"));
                End::Crash(CrashInfo {
                    what: format!("timer {ms} ms into incarnation {incarnation}"),
                    kind_label: "Timer".to_string(),
                })
            }
            _ = &mut relayer_task => End::RelayerExited,
            end = quiescence => end,
        }
    });
    // process kill: every task of the incarnation (relayer and fakes) is dropped here
    drop(rt);
    world.lock().unwrap().crash_tx = None;
    end
}

// ---------------------------------------------------------------------------------------------
// the oracle
// ---------------------------------------------------------------------------------------------

fn read_state(path: &Path) -> Result<SubmissionState, String> {
    let rt = tokio::runtime::Builder::new_current_thread()
        .enable_all()
        .build()
        .map_err(|e| e.to_string())?;
    rt.block_on(verif::read_submission_state(path))
}

fn log_tail(world: &World) -> String {
    let from = world.log.len().saturating_sub(40);
    world.log[from..].join(" | ")
}

fn check_invariants(
    world: &Shared,
    paths: &Paths,
    watch: Option<&DirWatch>,
    when: &str,
) -> Result<SubmissionState, Failure> {
    let w = world.lock().unwrap();
    let state = match read_state(&paths.state_file) {
        Ok(state) => state,
        Err(error) => {
            let content = std::fs::read_to_string(&paths.state_file).unwrap_or_default();
            return Err(Failure::new(
                "state-file-unreadable",
                format!(
                    "{when}: the relayer's own reader rejects the state file: {error}; content: \
                     {content:?}; log: {}",
                    log_tail(&w)
                ),
            ));
        }
    };
    let last = match &state {
        SubmissionState::Fresh => 0,
        SubmissionState::Started {
            last_sequencer_height,
            ..
        }
        | SubmissionState::Prepared {
            last_sequencer_height,
            ..
        } => *last_sequencer_height,
    };
    let landed = w.landed_heights();
    for height in 1..=last {
        vensure!(
            landed.contains(&height),
            "submitted-height-not-confirmed",
            "{when}: the state file {state:?} names height {last} as submitted but height \
             {height} is in no landed Celestia tx (landed: {landed:?}); log: {}",
            log_tail(&w)
        );
    }
    if let Some(max) = landed.iter().next_back() {
        for height in 1..=*max {
            vensure!(
                landed.contains(&height),
                "gap-in-confirmed-heights",
                "{when}: heights landed on Celestia are {landed:?}: {height} is missing; log: {}",
                log_tail(&w)
            );
        }
    }
    if let Some(watch) = watch {
        let state_name = paths
            .state_file
            .file_name()
            .map(|n| n.to_string_lossy().into_owned())
            .unwrap_or_default();
        for (mask, name) in watch.drain() {
            let in_place = mask & (libc::IN_MODIFY | libc::IN_CLOSE_WRITE | libc::IN_CREATE) != 0;
            vensure!(
                !(in_place && name == state_name),
                "state-file-written-in-place",
                "{when}: the state file was created/modified in place (inotify mask {mask:#x}) \
                 instead of being replaced by a rename; a kill during that write leaves a torn file"
            );
        }
    }
    Ok(state)
}

fn plan_case(plan: &Plan, ctx: &mut Ctx) -> CaseResult {
    let started = std::time::Instant::now();
    let dir = match tempfile::tempdir() {
        Ok(dir) => dir,
        Err(error) => vfail!("harness-tempdir", "cannot create a temp dir: {error}"),
    };
    let paths = Paths {
        state_file: dir.path().join("state.json"),
        key_file: dir.path().join("celestia.key"),
    };
    std::fs::write(&paths.state_file, r#"{"state": "fresh"}"#).expect("temp dir is writable");
    std::fs::write(
        &paths.key_file,
        "c8076374e2a4a58db1c924e3dafc055e9685481054fe99e58ed67f5c6ed80e62",
    )
    .expect("temp dir is writable");
    let watch = DirWatch::new(dir.path());
    if watch.is_none() {
        ctx.label("inotify-unavailable");
    }

    let blocks: Vec<RawSequencerBlock> = plan
        .blocks
        .iter()
        .enumerate()
        .map(|(i, spec)| make_block(i as u32 + 1, spec).into_raw())
        .collect();
    let total = blocks.len() as u64;
    let world: Shared = Arc::new(Mutex::new(World {
        plan: plan.clone(),
        blocks,
        revealed: 0,
        counts: BTreeMap::new(),
        pending_crashes: plan.crashes.clone(),
        crash_tx: None,
        crashed: false,
        incarnation: 0,
        celestia_height: 100,
        account_sequence: INITIAL_ACCOUNT_SEQUENCE,
        broadcasts: 0,
        txs: BTreeMap::new(),
        last_fate: "none",
        applied_fates: BTreeSet::new(),
        log: Vec::new(),
    }));

    let max_incarnations = plan.crashes.len() + plan.fates.len() + 6;
    let mut crash_in_flight = false;
    let mut conclusive = false;
    let mut exits = 0;
    for _ in 0..max_incarnations {
        let end = run_incarnation(&world, &paths, started);
        match &end {
            End::Setup(error) => {
                ctx.label("inconclusive:setup");
                ctx.note("setup_error", error);
                break;
            }
            End::RealBudget => {
                ctx.label("inconclusive:real-time-budget");
                break;
            }
            End::VirtualBudget => {
                ctx.label("inconclusive:virtual-time-budget");
                break;
            }
            End::Quiescent => {
                let state = check_invariants(&world, &paths, watch.as_ref(), "at quiescence")?;
                let w = world.lock().unwrap();
                let landed = w.landed_heights();
                vensure!(
                    (1..=total).all(|h| landed.contains(&h)),
                    "gap-in-confirmed-heights",
                    "at quiescence the state file is {state:?} but the heights landed on Celestia \
                     are {landed:?} of 1..={total}; log: {}",
                    log_tail(&w)
                );
                conclusive = true;
                break;
            }
            End::Crash(info) => {
                let state = check_invariants(
                    &world,
                    &paths,
                    watch.as_ref(),
                    &format!("after the crash `{}`", info.what),
                )?;
                let mut w = world.lock().unwrap();
                let state_label = match state {
                    SubmissionState::Fresh => "fresh",
                    SubmissionState::Started { .. } => "started",
                    SubmissionState::Prepared { .. } => "prepared",
                };
                ctx.label(format!(
                    "crash:{}/state:{state_label}/last-fate:{}",
                    info.kind_label, w.last_fate
                ));
                if state_label == "prepared" {
                    crash_in_flight = true;
                }
                // while the relayer is down: txs that were waiting for that land
                let waiting: Vec<String> = w
                    .txs
                    .iter()
                    .filter(|(_, t)| matches!(t.state, TxState::PendingUntilRestart { .. }))
                    .map(|(h, _)| h.clone())
                    .collect();
                for hash in waiting {
                    w.land(&hash);
                }
                w.incarnation += 1;
            }
            End::RelayerExited => {
                exits += 1;
                check_invariants(&world, &paths, watch.as_ref(), "after the relayer exited")?;
                let mut w = world.lock().unwrap();
                w.log("relayer exited on its own".to_string());
                ctx.label("relayer-exited-on-its-own");
                w.incarnation += 1;
                if exits > 3 {
                    ctx.label("inconclusive:relayer-keeps-exiting");
                    break;
                }
            }
        }
    }
    let w = world.lock().unwrap();
    if !conclusive {
        ctx.label("inconclusive");
    }
    for fate in &w.applied_fates {
        ctx.label(format!("fate:{fate}"));
    }
    for leftover in &w.pending_crashes {
        ctx.label(match leftover {
            CrashPoint::Event {
                ..
            } => "noop:crash-point-not-reached",
            CrashPoint::Timer {
                ..
            } => "noop:timer-crash-not-reached",
        });
    }
    let other_fate = w.applied_fates.iter().any(|f| *f != "confirm-immediately");
    ctx.note("incarnations", w.incarnation + 1);
    ctx.note("landed", w.landed_heights());
    ctx.note("log_tail", log_tail(&w));
    ctx.set_nontrivial(conclusive && crash_in_flight && other_fate);
    Ok(())
}

// ---------------------------------------------------------------------------------------------
// generator
// ---------------------------------------------------------------------------------------------

fn fate() -> impl Strategy<Value = Fate> {
    prop_oneof![
        3 => Just(Fate::ConfirmAfter(0)),
        3 => (1_u8..5).prop_map(Fate::ConfirmAfter),
        1 => (61_u8..70).prop_map(Fate::ConfirmAfter),
        3 => (1_u8..4).prop_map(|polls| Fate::PendingUntilRestart { polls }),
        3 => (1_u8..4).prop_map(|polls| Fate::Lost { polls }),
        2 => any::<bool>().prop_map(|lands| Fate::BroadcastTimeout { lands }),
        2 => any::<bool>().prop_map(|insufficient_fee| Fate::BroadcastError { insufficient_fee }),
    ]
}

fn crash_point() -> impl Strategy<Value = CrashPoint> {
    let kind = prop_oneof![
        1 => Just(EventKind::Status),
        2 => Just(EventKind::AbciInfo),
        3 => Just(EventKind::GetSequencerBlock),
        4 => Just(EventKind::CelestiaQuery),
        5 => Just(EventKind::BroadcastTx),
        5 => Just(EventKind::GetTx),
    ];
    prop_oneof![
        8 => (kind, 1_u8..12, any::<bool>()).prop_map(|(kind, nth, after)| CrashPoint::Event { kind, nth, after }),
        1 => (0_u8..4, 0_u32..4000).prop_map(|(incarnation, ms)| CrashPoint::Timer { incarnation, ms }),
    ]
}

fn plan(tier: Tier) -> BoxedStrategy<Plan> {
    let max_blocks = tier.pick(8_usize, 14);
    (
        proptest::collection::vec(
            prop_oneof![12 => small_block(), 1 => heavy_block(300_000_u32..600_000)],
            1..=max_blocks,
        ),
        proptest::collection::vec(prop_oneof![1 => Just(0_u8), 3 => 1_u8..4], 0..8),
        proptest::collection::vec(0_u8..12, 0..3),
        proptest::collection::vec(fate(), 0..6),
        proptest::collection::vec(crash_point(), 1..=6),
        prop_oneof![Just(20_u16), Just(100), Just(500)],
    )
        .prop_map(|(blocks, reveal, block_errors, fates, crashes, block_time_ms)| Plan {
            blocks,
            reveal,
            block_errors,
            fates,
            crashes,
            block_time_ms,
        })
        .boxed()
}

pub fn run(args: &[String]) -> ! {
    let mut s = Session::from_args("C11", "fault_enumeration", args);
    s.assume(
        "crash model = process kill: the whole tokio runtime of an incarnation (relayer and fakes) \
         is dropped at the crash point; a blocking file operation that already started runs to \
         completion. Power loss (un-fsynced rename) is out of scope; a write torn by a kill is \
         covered by the inotify assertion that the state file is only ever replaced by a rename",
    );
    s.assume(
        "Celestia is a fake: a BlobTx lands iff its fate says so and its account sequence is the \
         account's current one; landing is decided lazily at GetTx time or while the relayer is \
         down (pending-until-restart)",
    );
    s.assume(
        "fates under which the real relayer would poll GetTx forever (lost / pending for the whole \
         life of the process) carry their own forced restart after 1..=3 polls",
    );
    s.assume(
        "replay determinism is approximate (real loopback I/O decides how blocks are batched); the \
         oracle is a pure invariant over what happened. A case that hits its real-time (40 s) or \
         virtual-time (4 h) budget is counted as inconclusive, never as a violation",
    );
    s.run_prop(Prop {
        name: "crash_restart_plans",
        rule: "a plan = 1..=8 (thorough 14) sequencer blocks revealed in bursts, planned \
               GetSequencerBlock errors, a fate per BroadcastTx (confirm after k polls, pending \
               until restart, lost, broadcast times out and lands / is lost, broadcast error / \
               insufficient fee) and 1..=6 crash points (n-th event of kind status / abci_info / \
               GetSequencerBlock / celestia query / BroadcastTx / GetTx, before or after the fake \
               processes it; virtual-time points). Non-trivial: the history reached quiescence, \
               had a crash while the state file said `prepared` (a BlobTx in flight) and applied a \
               fate other than confirm-immediately",
        cases_quick: 1_200,
        cases_thorough: 24_000,
        shards: 12,
        min_nontrivial: 0.4,
        max_shrink_iters: 60,
        strategy: Box::new(plan),
        test: Box::new(plan_case),
    });
    s.finish()
}
