//! Receiver side: decoding Celestia blobs and verifying rollup data "the way conductor does".
//!
//! `decode_like_conductor` is the single switch point:
//!
//! * default build: implemented with the public `astria_core` types exactly as
//!   `astria-conductor/src/celestia/convert.rs` does it: per blob of the expected namespace
//!   `brotli::decompress_bytes` -> protobuf `SubmittedMetadataList` / `SubmittedRollupDataList` ->
//!   `try_from_raw` per entry, dropping a whole list if one entry is malformed;
//! * cargo feature `real-conductor`: forwards to `astria_conductor::verif::decode_blobs`, i.e. the
//!   real `decode_raw_blobs`, and `reconstruct_like_conductor` runs the real
//!   `reconstruct_blocks_from_verified_blobs` (`astria_conductor::verif::reconstruct_unverified`).
//!
//! `verify_rollup_data_against_metadata` is `verify_rollup_blob_against_sequencer_blob` of
//! `astria-conductor/src/celestia/reconstruct.rs`, written against the public merkle API (used in
//! both builds; the tamper oracle of C07 needs the verdict on a single entry).

use astria_core::{
    brotli::decompress_bytes,
    generated::astria::sequencerblock::v1::{
        SubmittedMetadataList,
        SubmittedRollupDataList,
    },
    sequencerblock::v1::{
        SubmittedMetadata,
        SubmittedRollupData,
    },
};
use celestia_types::{
    nmt::Namespace,
    Blob,
};
use prost::Message as _;

#[derive(Default)]
pub struct Decoded {
    pub metadata: Vec<SubmittedMetadata>,
    pub rollup_data: Vec<SubmittedRollupData>,
    /// blobs of an expected namespace that were dropped (not decompressible / not decodable /
    /// containing a malformed entry)
    pub dropped_blobs: usize,
    /// why (for messages only)
    pub drop_reasons: Vec<String>,
}

/// Decodes `blobs` for one (sequencer namespace, rollup namespace) pair like conductor's
/// `decode_raw_blobs`: conductor asks Celestia for the blobs of the two namespaces (header blobs
/// and rollup blobs are fetched separately), so blobs of other namespaces are never seen.
#[cfg(not(feature = "real-conductor"))]
pub fn decode_like_conductor(
    blobs: &[Blob],
    sequencer_namespace: Namespace,
    rollup_namespace: Namespace,
) -> Decoded {
    let mut out = Decoded::default();
    decode_header_blobs(blobs, sequencer_namespace, &mut out);
    decode_rollup_blobs(blobs, rollup_namespace, &mut out);
    out
}

/// The real conductor decoder. It drops undecodable blobs silently, so `dropped_blobs` stays 0 and
/// a dropped blob shows up as missing entries.
#[cfg(feature = "real-conductor")]
pub fn decode_like_conductor(
    blobs: &[Blob],
    sequencer_namespace: Namespace,
    rollup_namespace: Namespace,
) -> Decoded {
    let decoded = astria_conductor::verif::decode_blobs(
        blobs.to_vec(),
        sequencer_namespace,
        rollup_namespace,
    );
    Decoded {
        metadata: decoded.metadata(),
        rollup_data: decoded.rollup_data(),
        dropped_blobs: 0,
        drop_reasons: Vec::new(),
    }
}

pub const DECODER: &str = if cfg!(feature = "real-conductor") {
    "astria_conductor::verif::decode_blobs (the real decode_raw_blobs)"
} else {
    "harness transcription of astria-conductor/src/celestia/convert.rs over public astria_core types"
};

/// A namespace no generated blob lives in.
fn unused_namespace() -> Namespace {
    astria_core::celestia::namespace_v0_from_sha256_of_bytes(b"verif-unused-namespace")
}

/// Only the header (sequencer namespace) half of `decode_like_conductor`.
pub fn decode_metadata_like_conductor(blobs: &[Blob], sequencer_namespace: Namespace) -> Decoded {
    let headers: Vec<Blob> =
        blobs.iter().filter(|b| b.namespace == sequencer_namespace).cloned().collect();
    decode_like_conductor(&headers, sequencer_namespace, unused_namespace())
}

/// Only the rollup namespace half of `decode_like_conductor`.
pub fn decode_rollup_like_conductor(blobs: &[Blob], rollup_namespace: Namespace) -> Decoded {
    let rollup: Vec<Blob> =
        blobs.iter().filter(|b| b.namespace == rollup_namespace).cloned().collect();
    decode_like_conductor(&rollup, unused_namespace(), rollup_namespace)
}

/// Conductor's reconstruction for one rollup: `(block hash, transactions)` of every block it would
/// forward. `None` in the default build (no real conductor code available).
#[cfg(feature = "real-conductor")]
pub fn reconstruct_like_conductor(
    blobs: &[Blob],
    sequencer_namespace: Namespace,
    rollup_namespace: Namespace,
    rollup_id: astria_core::primitive::v1::RollupId,
) -> Option<Vec<([u8; 32], Vec<bytes::Bytes>)>> {
    let decoded = astria_conductor::verif::decode_blobs(
        blobs.to_vec(),
        sequencer_namespace,
        rollup_namespace,
    );
    Some(
        astria_conductor::verif::reconstruct_unverified(&decoded, rollup_id)
            .into_iter()
            .map(|block| (*block.block_hash.as_bytes(), block.transactions))
            .collect(),
    )
}

#[cfg(not(feature = "real-conductor"))]
pub fn reconstruct_like_conductor(
    _blobs: &[Blob],
    _sequencer_namespace: Namespace,
    _rollup_namespace: Namespace,
    _rollup_id: astria_core::primitive::v1::RollupId,
) -> Option<Vec<([u8; 32], Vec<bytes::Bytes>)>> {
    None
}

#[cfg_attr(feature = "real-conductor", allow(dead_code))]
fn decode_header_blobs(blobs: &[Blob], sequencer_namespace: Namespace, out: &mut Decoded) {
    for blob in blobs.iter().filter(|b| b.namespace == sequencer_namespace) {
        let entries: Result<Vec<_>, String> = decompress_bytes(&blob.data)
            .map_err(|e| format!("brotli: {e}"))
            .and_then(|data| {
                SubmittedMetadataList::decode(&*data).map_err(|e| format!("protobuf: {e}"))
            })
            .and_then(|list| {
                list.entries
                    .into_iter()
                    .map(|raw| SubmittedMetadata::try_from_raw(raw).map_err(error_chain))
                    .collect()
            });
        match entries {
            Ok(entries) => out.metadata.extend(entries),
            Err(reason) => {
                out.dropped_blobs += 1;
                out.drop_reasons.push(reason);
            }
        }
    }
}

#[cfg_attr(feature = "real-conductor", allow(dead_code))]
fn decode_rollup_blobs(blobs: &[Blob], rollup_namespace: Namespace, out: &mut Decoded) {
    for blob in blobs.iter().filter(|b| b.namespace == rollup_namespace) {
        let entries: Result<Vec<_>, String> = decompress_bytes(&blob.data)
            .map_err(|e| format!("brotli: {e}"))
            .and_then(|data| {
                SubmittedRollupDataList::decode(&*data).map_err(|e| format!("protobuf: {e}"))
            })
            .and_then(|list| {
                list.entries
                    .into_iter()
                    .map(|raw| SubmittedRollupData::try_from_raw(raw).map_err(error_chain))
                    .collect()
            });
        match entries {
            Ok(entries) => out.rollup_data.extend(entries),
            Err(reason) => {
                out.dropped_blobs += 1;
                out.drop_reasons.push(reason);
            }
        }
    }
}

fn error_chain<E: std::error::Error>(error: E) -> String {
    let mut text = error.to_string();
    let mut source = error.source();
    while let Some(inner) = source {
        text.push_str(": ");
        text.push_str(&inner.to_string());
        source = inner.source();
    }
    text
}

/// The Merkle audit of conductor's `reconstruct.rs`: leaf = `rollup_id || MTH(transactions)`,
/// root = the metadata's `rollup_transactions_root`.
pub fn verify_rollup_data_against_metadata(
    rollup: &SubmittedRollupData,
    metadata: &SubmittedMetadata,
) -> bool {
    rollup
        .proof()
        .audit()
        .with_root(*metadata.rollup_transactions_root())
        .with_leaf_builder()
        .write(rollup.rollup_id().as_bytes())
        .write(&astria_merkle::Tree::from_leaves(rollup.transactions()).root())
        .finish_leaf()
        .perform()
}

/// Conductor's matching of a rollup blob to a header blob: same block hash and the audit passes.
pub fn find_matching_metadata<'a>(
    rollup: &SubmittedRollupData,
    metadata: &'a [SubmittedMetadata],
) -> Option<&'a SubmittedMetadata> {
    metadata
        .iter()
        .find(|m| m.block_hash() == rollup.sequencer_block_hash())
        .filter(|m| verify_rollup_data_against_metadata(rollup, m))
}

pub fn compressed_size(blobs: &[Blob]) -> usize {
    blobs.iter().map(|b| b.data.len()).sum()
}
